#!/bin/bash
# C02 = the (n,k) triangle through every front-end (harness/vcheck bin c02)
#     + the same claim for a running Stats that comes out of a deserializer (harness/vserde bin c02s).
# The serde half needs the serde feature set to build; when it does not, that is C20's verdict, and
# this half is skipped with a note (the counts half still decides C02).
set -u
ROOT="$(cd "$(dirname "${BASH_SOURCE[0]}")/.." && pwd)"
export VERIF_ROOT="$ROOT" CARGO_NET_OFFLINE=true
export CARGO_TARGET_DIR="${CARGO_TARGET_DIR:-$ROOT/harness/target}"
tier="${1:-quick}"
out="$(cd "$ROOT/harness" && cargo build --release --offline --bin c02 2>&1)" || { echo "$out" | tail -30 >&2; echo "MACHINERY-ERROR: harness build failed for C02 (this is not a verdict on C02)" >&2; exit 2; }
rm -f "$ROOT/evidence/C02.serde.json"
r1=0
if out="$(cd "$ROOT/harness" && cargo build --release --offline --bin c02s 2>&1)"; then
  "$CARGO_TARGET_DIR/release/c02s" "$tier"; r1=$?
else
  echo "note: the serde-enabled half of C02 could not be built (see C20 for the feature set); skipped" >&2
fi
"$CARGO_TARGET_DIR/release/c02" "$tier"; r2=$?
if [ $r1 -eq 1 ] || [ $r2 -eq 1 ]; then exit 1; fi
if [ $r2 -ne 0 ]; then echo "MACHINERY-ERROR: c02 exited with $r2" >&2; exit $r2; fi
if [ $r1 -ne 0 ]; then echo "MACHINERY-ERROR: c02s exited with $r1" >&2; exit $r1; fi
exit 0
