#!/bin/bash
# C09 = schedules (loom) + histories (explicit-state BFS) + the same pool model under a second
# engine (stateright) whose state counts must equal the hand-rolled explorer's. Exit: worst of the three.
set -u
ROOT="$(cd "$(dirname "${BASH_SOURCE[0]}")/.." && pwd)"
export VERIF_ROOT="$ROOT" CARGO_NET_OFFLINE=true
export CARGO_TARGET_DIR="${CARGO_TARGET_DIR:-$ROOT/harness/target}"
tier="${1:-quick}"
out="$(cd "$ROOT/harness" && cargo build --release --offline --bin vloom --bin vsr --bin c09 2>&1)" || { echo "$out" | tail -30 >&2; echo "MACHINERY-ERROR: harness build failed for C09" >&2; exit 2; }
rm -f "$ROOT/evidence/C09.loom.json" "$ROOT/evidence/C09.stateright.json"
"$CARGO_TARGET_DIR/release/vloom"; r1=$?
"$CARGO_TARGET_DIR/release/vsr" "$tier"; r3=$?
"$CARGO_TARGET_DIR/release/c09" "$tier"; r2=$?
if [ $r1 -eq 1 ] || [ $r2 -eq 1 ] || [ $r3 -eq 1 ]; then exit 1; fi
if [ $r1 -ne 0 ]; then exit $r1; fi
if [ $r3 -ne 0 ]; then exit $r3; fi
exit $r2
