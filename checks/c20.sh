#!/bin/bash
# C20 = (configurations) build every advertised feature set from /repo's working tree
#     + (round trip) explicit-state search with serde enabled (harness/vserde).
# A feature set that does not build IS the violation (the round-trip half then cannot be
# built either and is skipped); any other build problem is a machinery error.
set -u
ROOT="$(cd "$(dirname "${BASH_SOURCE[0]}")/.." && pwd)"
export VERIF_ROOT="$ROOT" CARGO_NET_OFFLINE=true
export CARGO_TARGET_DIR="${CARGO_TARGET_DIR:-$ROOT/harness/target}"
tier="${1:-quick}"
FT="$CARGO_TARGET_DIR/features"
mkdir -p "$ROOT/evidence" "$ROOT/replays"
t0=$(date +%s.%N)
names=("default" "std" "std,approx" "std,serde" "all")
flags=("" "--no-default-features --features std" "--no-default-features --features std,approx" "--no-default-features --features std,serde" "--all-features")
json="["
fail=0
for i in 0 1 2 3 4; do
  cmd="cargo build --lib --offline --manifest-path /repo/Cargo.toml ${flags[$i]}"
  out="$(CARGO_TARGET_DIR="$FT" $cmd 2>&1)"; rc=$?
  err="$(echo "$out" | grep -m1 -E '^error' | sed 's/"/\\"/g' | cut -c1-300)"
  ok=true; if [ $rc -ne 0 ]; then ok=false; fail=1; fi
  [ $i -gt 0 ] && json="$json,"
  json="$json{\"name\":\"${names[$i]}\",\"cmd\":\"$cmd\",\"ok\":$ok,\"first_error\":\"$err\"}"
done
json="$json]"
echo "$json" > "$ROOT/evidence/C20.features.json"
out="$(cd "$ROOT/harness" && cargo build --release --offline --bin c20 2>&1)"; brc=$?
if [ $brc -ne 0 ]; then
  if [ $fail -eq 1 ]; then
    # the serde feature set itself is broken: report from here
    python3 - "$ROOT" "$tier" "$t0" <<'PY'
import json, sys, time, os
root, tier, t0 = sys.argv[1], sys.argv[2], float(sys.argv[3])
sets = json.load(open(os.path.join(root, 'evidence', 'C20.features.json')))
bad = [s for s in sets if not s['ok']]
known = []
try:
    known = [k for k in json.load(open(os.path.join(root, 'known_findings.json')))['findings'] if k.get('property') == 'C20' and k.get('status') == 'known']
except Exception:
    pass
new = 0
for i, s in enumerate(bad):
    sig = f"feature-set/{s['name']}/build-failure"
    if any(k.get('signature') == sig for k in known):
        print(f"KNOWN-FINDING: property=C20 {sig}")
        continue
    new += 1
    p = os.path.join(root, 'replays', f'C20-{i:03d}.json')
    json.dump({"property": "C20", "signature": sig, "detail": s['first_error'], "case": {"check": "feature-set", "name": s['name'], "cmd": s['cmd']}}, open(p, 'w'), indent=1)
    print(f"VIOLATION property=C20 replay={p}")
    print(f"  signature: {sig}\n  detail: `{s['cmd']}` failed: {s['first_error']}")
ev = {"property_id": "C20", "tier": tier, "seed": int(os.environ.get('VERIF_SEED', '0') or 0), "level": "model_checking",
      "coverage": {"states": len(sets), "transitions": len(sets), "traces_validated_against_impl": len(sets), "evaluations": len(sets), "distinct_nontrivial": len(sets),
                   "rule": "five advertised feature sets built from the working tree; the round-trip search could not be built because a feature set containing serde does not compile",
                   "samples": sets, "exhaustive": True, "feature_sets": sets},
      "assumptions": ["round-trip half skipped: the serde-enabled harness cannot be built while the serde feature set fails to compile"],
      "wall_s": time.time() - t0, "violations": new}
json.dump(ev, open(os.path.join(root, 'evidence', 'C20.json'), 'w'), indent=1)
print(f"C20 {tier}: {len(sets)} feature sets, {len(bad)} failed to build; round-trip search skipped")
sys.exit(1 if new else 0)
PY
    exit $?
  fi
  echo "$out" | tail -30 >&2
  echo "MACHINERY-ERROR: harness build failed for C20 although every feature set builds (not a verdict)" >&2
  exit 2
fi
"$CARGO_TARGET_DIR/release/c20" "$tier"; rc=$?
case $rc in 0|1) exit $rc ;; *) echo "MACHINERY-ERROR: c20 exited with $rc" >&2; exit $rc ;; esac
