//! Exact rational reference statistics. Every finite float is a dyadic rational, so
//! sums, means and variances of float samples are computed without any rounding.

use num_bigint::BigInt;
use num_rational::BigRational;
use num_traits::{One, Signed, ToPrimitive, Zero};

pub type Q = BigRational;

pub fn q(x: f64) -> Q {
    BigRational::from_float(x).unwrap_or_else(|| panic!("non-finite value {x} has no rational"))
}

pub fn qi(n: i64) -> Q {
    BigRational::from_integer(BigInt::from(n))
}

pub fn qu(n: usize) -> Q {
    BigRational::from_integer(BigInt::from(n))
}

pub fn to_f64(r: &Q) -> f64 {
    // num-rational's to_f64 is correctly rounded for BigInt ratios (>= 0.4)
    r.to_f64().unwrap_or(f64::NAN)
}

/// Exact statistics of a sample.
#[derive(Clone, Debug)]
pub struct ExactStats {
    pub n: usize,
    pub sum: Q,
    pub sum_sq: Q,
    pub sum_abs: Q,
    pub mean: Q,
    /// (n−1)-denominator variance; zero when n < 2
    pub var: Q,
}

pub fn exact_stats(xs: &[f64]) -> ExactStats {
    let mut sum = Q::zero();
    let mut sum_sq = Q::zero();
    let mut sum_abs = Q::zero();
    for &x in xs {
        let r = q(x);
        sum_sq += &r * &r;
        sum_abs += r.abs();
        sum += r;
    }
    finish(xs.len(), sum, sum_sq, sum_abs)
}

/// Exact statistics of a sample given as (value, multiplicity) runs.
pub fn exact_stats_runs(runs: &[(f64, u64)]) -> ExactStats {
    let mut sum = Q::zero();
    let mut sum_sq = Q::zero();
    let mut sum_abs = Q::zero();
    let mut n = 0usize;
    for &(x, m) in runs {
        let r = q(x);
        let mq = BigRational::from_integer(BigInt::from(m));
        sum_sq += &r * &r * &mq;
        sum_abs += r.abs() * &mq;
        sum += r * &mq;
        n += m as usize;
    }
    finish(n, sum, sum_sq, sum_abs)
}

fn finish(n: usize, sum: Q, sum_sq: Q, sum_abs: Q) -> ExactStats {
    let nq = qu(n.max(1));
    let mean = &sum / &nq;
    let var = if n >= 2 {
        (&sum_sq - &sum * &sum / &nq) / qu(n - 1)
    } else {
        Q::zero()
    };
    ExactStats { n, sum, sum_sq, sum_abs, mean, var }
}

impl ExactStats {
    pub fn mean_f(&self) -> f64 {
        to_f64(&self.mean)
    }
    pub fn var_f(&self) -> f64 {
        to_f64(&self.var)
    }
    pub fn sd_f(&self) -> f64 {
        self.var_f().sqrt()
    }
    pub fn sum_abs_f(&self) -> f64 {
        to_f64(&self.sum_abs)
    }
    /// standard error s/√n
    pub fn se_f(&self) -> f64 {
        (to_f64(&(&self.var / qu(self.n.max(1))))).sqrt()
    }
    /// conditioning κ² = 1 + x̄²/s² of the one-pass variance formula (∞ when s = 0)
    pub fn kappa2(&self) -> f64 {
        if self.var.is_zero() {
            f64::INFINITY
        } else {
            1.0 + to_f64(&(&self.mean * &self.mean / &self.var))
        }
    }
    /// Conditioning of the textbook formula Σx² − (Σx)²/n: Σx² / ((n−1)s²)
    pub fn cond_sumsq(&self) -> f64 {
        if self.var.is_zero() {
            f64::INFINITY
        } else {
            to_f64(&(&self.sum_sq / (&self.var * qu(self.n - 1))))
        }
    }
}

pub fn one() -> Q {
    Q::one()
}
