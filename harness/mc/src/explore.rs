//! Explicit-state breadth-first exploration over a *real* transition function.
//!
//! A state owns real implementation objects plus a reference model. The search is
//! level-synchronous: every state of the frontier is expanded (in parallel) by applying
//! every enabled action through `step` (which calls the implementation); successors are
//! canonicalised with `key` and deduplicated; the invariant/oracle is evaluated inside
//! `step` (per transition) and `check` (per new state). Nothing is sampled and nothing
//! is cut except by the stated depth / state caps, which are reported.

use crate::report::Sink;
use rayon::prelude::*;
use std::collections::HashSet;
use std::hash::Hash;

pub struct BfsStats {
    pub states: u64,
    pub transitions: u64,
    pub max_depth: usize,
    pub per_depth: Vec<u64>,
    pub capped: bool,
}

pub struct Bfs<'a, S, A, K> {
    /// enabled actions in a state
    pub actions: &'a (dyn Fn(&S) -> Vec<A> + Sync),
    /// apply an action with the real implementation; None = action not applicable /
    /// outside the bound; may record violations for the transition into the sink
    pub step: &'a (dyn Fn(&S, &A, &mut Sink) -> Option<S> + Sync),
    /// canonical key (dedup)
    pub key: &'a (dyn Fn(&S) -> K + Sync),
    /// invariant on every newly discovered state
    pub check: &'a (dyn Fn(&S, &mut Sink) + Sync),
    pub max_depth: usize,
    pub max_states: u64,
}

impl<'a, S: Send + Sync, A: Send + Sync, K: Hash + Eq + Ord + Send + Sync + Clone> Bfs<'a, S, A, K> {
    pub fn run(&self, init: Vec<S>, sink: &mut Sink) -> BfsStats {
        let mut seen: HashSet<K> = HashSet::new();
        let mut frontier: Vec<S> = vec![];
        for s in init {
            let k = (self.key)(&s);
            if seen.insert(k) {
                (self.check)(&s, sink);
                frontier.push(s);
            }
        }
        let mut stats = BfsStats { states: frontier.len() as u64, transitions: 0, max_depth: 0, per_depth: vec![frontier.len() as u64], capped: false };
        for depth in 1..=self.max_depth {
            if frontier.is_empty() {
                break;
            }
            // expand in parallel; each worker returns (successors with keys, sink)
            let results: Vec<(Vec<(K, S)>, Sink, u64)> = frontier
                .par_chunks(64.max(frontier.len() / 256))
                .map(|chunk| {
                    let mut local = Sink::new();
                    let mut out = vec![];
                    let mut tr = 0u64;
                    for s in chunk {
                        for a in (self.actions)(s) {
                            if let Some(n) = (self.step)(s, &a, &mut local) {
                                tr += 1;
                                out.push(((self.key)(&n), n));
                            }
                        }
                    }
                    (out, local, tr)
                })
                .collect();
            let mut next: Vec<(K, S)> = vec![];
            for (out, local, tr) in results {
                stats.transitions += tr;
                let l = std::mem::take(sink);
                *sink = l.merge(local);
                for (k, s) in out {
                    if !seen.contains(&k) {
                        seen.insert(k.clone());
                        next.push((k, s));
                    }
                }
            }
            // deterministic order of the new frontier
            next.sort_by(|a, b| a.0.cmp(&b.0));
            if stats.states + next.len() as u64 > self.max_states {
                stats.capped = true;
                let keep = (self.max_states - stats.states.min(self.max_states)) as usize;
                next.truncate(keep);
            }
            let checked: Sink = next
                .par_iter()
                .fold(Sink::new, |mut s, (_, st)| {
                    (self.check)(st, &mut s);
                    s
                })
                .reduce(Sink::new, Sink::merge);
            let l = std::mem::take(sink);
            *sink = l.merge(checked);
            stats.states += next.len() as u64;
            stats.per_depth.push(next.len() as u64);
            if !next.is_empty() {
                stats.max_depth = depth;
            }
            frontier = next.into_iter().map(|(_, s)| s).collect();
            if stats.capped {
                break;
            }
        }
        stats
    }
}

/// All sequences of length `len` over `0..base` (as index vectors), in lexicographic order.
pub fn sequences(base: usize, len: usize) -> Vec<Vec<usize>> {
    let mut out = vec![];
    let total = (base as u64).pow(len as u32);
    for mut i in 0..total {
        let mut v = vec![0usize; len];
        for j in (0..len).rev() {
            v[j] = (i % base as u64) as usize;
            i /= base as u64;
        }
        out.push(v);
    }
    out
}

/// the i-th sequence of length `len` over `0..base`
pub fn nth_sequence(base: usize, len: usize, mut i: u64) -> Vec<usize> {
    let mut v = vec![0usize; len];
    for j in (0..len).rev() {
        v[j] = (i % base as u64) as usize;
        i /= base as u64;
    }
    v
}

/// All permutations of 0..n (Heap's algorithm), n ≤ 10.
pub fn permutations(n: usize) -> Vec<Vec<usize>> {
    let mut a: Vec<usize> = (0..n).collect();
    let mut out = vec![a.clone()];
    let mut c = vec![0usize; n];
    let mut i = 0;
    while i < n {
        if c[i] < i {
            if i % 2 == 0 {
                a.swap(0, i);
            } else {
                a.swap(c[i], i);
            }
            out.push(a.clone());
            c[i] += 1;
            i = 0;
        } else {
            c[i] = 0;
            i += 1;
        }
    }
    out
}

/// All non-decreasing sequences (multisets) of length `len` over `0..base`.
pub fn multisets(base: usize, len: usize) -> Vec<Vec<usize>> {
    fn rec(base: usize, len: usize, start: usize, cur: &mut Vec<usize>, out: &mut Vec<Vec<usize>>) {
        if cur.len() == len {
            out.push(cur.clone());
            return;
        }
        for v in start..base {
            cur.push(v);
            rec(base, len, v, cur, out);
            cur.pop();
        }
    }
    let mut out = vec![];
    rec(base, len, 0, &mut vec![], &mut out);
    out
}
