//! `mc` — the model-checking support library of /verif (independent of stats-ci):
//! explorer, enumerators, oracles, evidence / replay / known-findings handling.

pub mod exact;
pub mod explore;
pub mod oracle;
pub mod report;
pub mod selftest;

pub use report::{catch, hash_of, par_judge, par_range, parse_args, quiet_panics, Cmd, Report, Sink, Tier};
pub use serde_json::{json, Value};

/// 23-level grid `LG` (DESIGN §3); {0.25, 0.5, 0.75, 0.875, 0.96875} are dyadic.
pub const LG: [f64; 23] = [
    0.001, 0.01, 0.05, 0.1, 0.2, 0.25, 0.3, 0.4, 0.5, 0.6, 0.7, 0.75, 0.8, 0.85, 0.875, 0.9, 0.95,
    0.96875, 0.975, 0.99, 0.995, 0.999, 0.9999,
];
/// quick-tier subset `LQ`
pub const LQ: [f64; 8] = [0.001, 0.25, 0.5, 0.75, 0.9, 0.95, 0.96875, 0.9999];

pub fn is_dyadic_level(l: f64) -> bool {
    // exactly representable with few bits: l * 2^10 is an integer
    (l * 1024.0).fract() == 0.0
}

#[derive(Clone, Copy, Debug, PartialEq, Eq, Hash, PartialOrd, Ord, serde::Serialize, serde::Deserialize)]
pub enum Kind {
    Two,
    Upper,
    Lower,
}
pub const KINDS: [Kind; 3] = [Kind::Two, Kind::Upper, Kind::Lower];

impl Kind {
    pub fn name(self) -> &'static str {
        match self {
            Kind::Two => "two-sided",
            Kind::Upper => "upper",
            Kind::Lower => "lower",
        }
    }
    pub fn flipped(self) -> Kind {
        match self {
            Kind::Two => Kind::Two,
            Kind::Upper => Kind::Lower,
            Kind::Lower => Kind::Upper,
        }
    }
}

pub fn levels(tier: Tier) -> &'static [f64] {
    match tier {
        Tier::Quick => &LQ,
        Tier::Thorough => &LG,
    }
}

/// distance in units in the last place between two finite doubles of the same sign
/// class (monotone bit mapping); u64::MAX if either is NaN.
pub fn ulps64(a: f64, b: f64) -> u64 {
    if a.is_nan() || b.is_nan() {
        return u64::MAX;
    }
    fn key(x: f64) -> i64 {
        let b = x.to_bits() as i64;
        if b < 0 {
            i64::MIN - b
        } else {
            b
        }
    }
    let (ka, kb) = (key(a), key(b));
    (ka as i128 - kb as i128).unsigned_abs() as u64
}

pub fn ulps32(a: f32, b: f32) -> u64 {
    if a.is_nan() || b.is_nan() {
        return u64::MAX;
    }
    fn key(x: f32) -> i32 {
        let b = x.to_bits() as i32;
        if b < 0 {
            i32::MIN - b
        } else {
            b
        }
    }
    (key(a) as i64 - key(b) as i64).unsigned_abs()
}

/// injective text rendering of a double (bit pattern + human form)
pub fn fbits(x: f64) -> String {
    format!("{:?}#{:016x}", x, x.to_bits())
}
