pub fn hello(){}
