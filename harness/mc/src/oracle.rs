//! Distribution-function oracles, independent of statrs and of stats-ci.
//!
//! * `norm_cdf`/`norm_sf` from `libm::erfc`; `norm_ppf` by bracketed Newton on it.
//! * `t_cdf` for real-valued dof from our own regularised incomplete beta
//!   (modified Lentz continued fraction), with the log-beta prefix computed without
//!   cancellation for large dof.
//! * binomial pmf vectors by a log-space recurrence.
//!
//! Everything is self-tested on every run against committed scipy/mpmath tables
//! (`/verif/oracle_ref/*.json`, see `selftest`).

use libm::{erfc, exp, lgamma, log, log1p, sqrt};

pub const SQRT_2: f64 = std::f64::consts::SQRT_2;

/// Φ(z)
pub fn norm_cdf(z: f64) -> f64 {
    0.5 * erfc(-z / SQRT_2)
}

/// 1 − Φ(z)
pub fn norm_sf(z: f64) -> f64 {
    0.5 * erfc(z / SQRT_2)
}

pub fn norm_pdf(z: f64) -> f64 {
    exp(-0.5 * z * z) / sqrt(2.0 * std::f64::consts::PI)
}

/// Φ⁻¹(p) for p in (0,1): bisection to a bracket then Newton polishing on the
/// tail-accurate representation (uses sf for p > ½).
pub fn norm_ppf(p: f64) -> f64 {
    assert!(p > 0.0 && p < 1.0, "norm_ppf domain: {p}");
    if p == 0.5 {
        return 0.0;
    }
    if p > 0.5 {
        return -norm_ppf_lower(1.0 - p, Some(p));
    }
    norm_ppf_lower(p, None)
}

/// p < ½: solve Φ(z) = p with z < 0. `upper` carries the original p > ½ when the call
/// comes from the mirrored branch so that the residual is evaluated as 1−Φ(−z)… we
/// accept the rounding of 1−p there (it is what "the quantile at p" means in doubles
/// only up to 1 ulp of p anyway, far below every tolerance used).
fn norm_ppf_lower(p: f64, _upper: Option<f64>) -> f64 {
    let (mut lo, mut hi) = (-40.0_f64, 0.0_f64);
    for _ in 0..200 {
        let mid = 0.5 * (lo + hi);
        if norm_cdf(mid) < p {
            lo = mid;
        } else {
            hi = mid;
        }
        if hi - lo < 1e-17 * (1.0 + lo.abs()) {
            break;
        }
    }
    let mut z = 0.5 * (lo + hi);
    for _ in 0..4 {
        let f = norm_cdf(z) - p;
        let d = norm_pdf(z);
        if d > 0.0 {
            let nz = z - f / d;
            if nz.is_finite() && nz >= lo - 1e-9 && nz <= hi + 1e-9 {
                z = nz;
            }
        }
    }
    z
}

/// ln Γ(a+½) − ln Γ(a), accurate (abs. error ≈ 1e−16·max(1, |value|)) for all a > 0.
pub fn lgamma_half_diff(a: f64) -> f64 {
    if a < 30.0 {
        lgamma(a + 0.5) - lgamma(a)
    } else {
        // Stirling: lnΓ(z) = (z−½)ln z − z + ½ln2π + Σ B2k/(2k(2k−1) z^(2k−1))
        // lnΓ(a+½) − lnΓ(a) = a·ln(a+½) − (a−½)·ln a − ½ + S(a+½) − S(a)
        //                   = a·log1p(1/(2a)) + ½·ln a − ½ + S(a+½) − S(a)
        let s = |z: f64| {
            let z2 = z * z;
            (1.0 / 12.0) / z - (1.0 / 360.0) / (z * z2) + (1.0 / 1260.0) / (z * z2 * z2)
                - (1.0 / 1680.0) / (z * z2 * z2 * z2)
                + (1.0 / 1188.0) / (z * z2 * z2 * z2 * z2)
        };
        a * log1p(0.5 / a) + 0.5 * log(a) - 0.5 + s(a + 0.5) - s(a)
    }
}

/// Continued fraction for the incomplete beta function (modified Lentz).
fn betacf(a: f64, b: f64, x: f64) -> f64 {
    const TINY: f64 = 1e-300;
    const EPS: f64 = 1e-16;
    let qab = a + b;
    let qap = a + 1.0;
    let qam = a - 1.0;
    let mut c = 1.0;
    let mut d = 1.0 - qab * x / qap;
    if d.abs() < TINY {
        d = TINY;
    }
    d = 1.0 / d;
    let mut h = d;
    for m in 1..200_000 {
        let m = m as f64;
        let m2 = 2.0 * m;
        let aa = m * (b - m) * x / ((qam + m2) * (a + m2));
        d = 1.0 + aa * d;
        if d.abs() < TINY {
            d = TINY;
        }
        c = 1.0 + aa / c;
        if c.abs() < TINY {
            c = TINY;
        }
        d = 1.0 / d;
        h *= d * c;
        let aa = -(a + m) * (qab + m) * x / ((a + m2) * (qap + m2));
        d = 1.0 + aa * d;
        if d.abs() < TINY {
            d = TINY;
        }
        c = 1.0 + aa / c;
        if c.abs() < TINY {
            c = TINY;
        }
        d = 1.0 / d;
        let del = d * c;
        h *= del;
        if (del - 1.0).abs() < EPS {
            return h;
        }
    }
    h
}

/// For the t distribution with ν dof and t ≥ 0 returns the pair
/// (P(0 < T ≤ t), P(T > t)) — both computed directly (no 1−x cancellation), so either
/// tail can be compared at full relative accuracy.
pub fn t_central_and_tail(t: f64, nu: f64) -> (f64, f64) {
    assert!(t >= 0.0 && nu > 0.0);
    if t == 0.0 {
        return (0.0, 0.5);
    }
    if t.is_infinite() {
        return (0.5, 0.0);
    }
    // y = t²/(ν+t²) ; x = ν/(ν+t²) = 1 − y
    let r = t * t / nu;
    let ln_y = if r > 1.0 { -log1p(1.0 / r) } else { log(r) - log1p(r) };
    let ln_x = -log1p(r);
    let y = exp(ln_y);
    let x = exp(ln_x);
    let a = 0.5; // for I_y(½, ν/2)
    let b = 0.5 * nu;
    // ln B(½, ν/2) = lnΓ(½) + lnΓ(ν/2) − lnΓ(ν/2+½)
    let ln_beta = 0.5 * log(std::f64::consts::PI) - lgamma_half_diff(b);
    // common prefix y^a x^b / B(a,b)
    let ln_front = a * ln_y + b * ln_x - ln_beta;
    let front = exp(ln_front);
    if y < (a + 1.0) / (a + b + 2.0) {
        // I_y(a,b) directly
        let i = front * betacf(a, b, y) / a;
        let central = 0.5 * i;
        (central, 0.5 - central)
    } else {
        // I_x(b,a) = 1 − I_y(a,b)
        let j = front * betacf(b, a, x) / b;
        let tail = 0.5 * j;
        (0.5 - tail, tail)
    }
}

/// Student-t CDF with real-valued dof.
pub fn t_cdf(t: f64, nu: f64) -> f64 {
    if t >= 0.0 {
        let (c, _) = t_central_and_tail(t, nu);
        0.5 + c
    } else {
        let (_, tail) = t_central_and_tail(-t, nu);
        tail
    }
}

/// Student-t survival function 1 − CDF (accurate in the upper tail).
pub fn t_sf(t: f64, nu: f64) -> f64 {
    t_cdf(-t, nu)
}

pub fn t_pdf(t: f64, nu: f64) -> f64 {
    // Γ((ν+1)/2)/(√(νπ) Γ(ν/2)) (1+t²/ν)^(−(ν+1)/2)
    let lg = lgamma_half_diff(0.5 * nu);
    exp(lg - 0.5 * log(nu * std::f64::consts::PI) - 0.5 * (nu + 1.0) * log1p(t * t / nu))
}

/// t quantile for p in (0,1) and real dof: bisection on the accurate tail + Newton.
pub fn t_ppf(p: f64, nu: f64) -> f64 {
    assert!(p > 0.0 && p < 1.0 && nu > 0.0);
    if p == 0.5 {
        return 0.0;
    }
    if p < 0.5 {
        return -t_ppf_upper(p, nu);
    }
    t_ppf_upper(1.0 - p, nu)
}

/// solve sf(t) = q for q < ½, t > 0
fn t_ppf_upper(q: f64, nu: f64) -> f64 {
    let mut hi = 1.0_f64;
    while t_sf(hi, nu) > q {
        hi *= 2.0;
        if hi > 1e300 {
            return f64::INFINITY;
        }
    }
    let mut lo = if hi == 1.0 { 0.0 } else { hi / 2.0 };
    for _ in 0..200 {
        let mid = 0.5 * (lo + hi);
        if t_sf(mid, nu) > q {
            lo = mid;
        } else {
            hi = mid;
        }
        if hi - lo <= 4e-16 * hi {
            break;
        }
    }
    let mut t = 0.5 * (lo + hi);
    for _ in 0..3 {
        let f = t_sf(t, nu) - q;
        let d = t_pdf(t, nu);
        if d > 0.0 {
            let nt = t + f / d;
            if nt.is_finite() && nt >= lo * (1.0 - 1e-9) && nt <= hi * (1.0 + 1e-9) {
                t = nt;
            }
        }
    }
    t
}

/// The probability a confidence with level `l` must put below the (signed) critical
/// value: (1+L)/2 for two-sided, L for one-sided; returned as (p, 1−p) with the
/// complement formed exactly where possible.
pub fn target_prob(level: f64, two_sided: bool) -> (f64, f64) {
    if two_sided {
        (0.5 + 0.5 * level, 0.5 - 0.5 * level)
    } else {
        (level, 1.0 - level)
    }
}

/// Binomial pmf vector for n trials with success probability p, k = 0..=n.
/// Computed from the mode outwards with the ratio recurrence in log-free form and
/// normalised by its own sum (sum is within 1e−13 of 1 before normalisation; the
/// normalisation is reported by `selftest`).
pub fn binom_pmf_vec(n: usize, p: f64) -> Vec<f64> {
    assert!((0.0..=1.0).contains(&p));
    let mut v = vec![0.0_f64; n + 1];
    if p == 0.0 {
        v[0] = 1.0;
        return v;
    }
    if p == 1.0 {
        v[n] = 1.0;
        return v;
    }
    let q = 1.0 - p;
    let mode = (((n + 1) as f64) * p).floor().min(n as f64) as usize;
    // log pmf at the mode via lgamma
    let nf = n as f64;
    let mf = mode as f64;
    let ln_mode = lgamma(nf + 1.0) - lgamma(mf + 1.0) - lgamma(nf - mf + 1.0)
        + mf * log(p)
        + (nf - mf) * log1p(-p);
    v[mode] = exp(ln_mode);
    // upwards: pmf(k+1) = pmf(k) * (n-k)/(k+1) * p/q
    let r = p / q;
    for k in mode..n {
        v[k + 1] = v[k] * ((n - k) as f64) / ((k + 1) as f64) * r;
    }
    // downwards: pmf(k-1) = pmf(k) * k/(n-k+1) * q/p
    let rr = q / p;
    for k in (1..=mode).rev() {
        v[k - 1] = v[k] * (k as f64) / ((n - k + 1) as f64) * rr;
    }
    let s: f64 = kahan_sum(&v);
    for x in v.iter_mut() {
        *x /= s;
    }
    v
}

pub fn kahan_sum(v: &[f64]) -> f64 {
    // Neumaier summation (harness-internal; unrelated to the crate's KahanSum)
    let mut s = 0.0_f64;
    let mut c = 0.0_f64;
    for &x in v {
        let t = s + x;
        if s.abs() >= x.abs() {
            c += (s - t) + x;
        } else {
            c += (x - t) + s;
        }
        s = t;
    }
    s + c
}

/// Textbook Wilson score bounds (lower root, upper root) for k successes of n at
/// critical value z — the oracle's own formula, written independently of the crate:
/// roots of (n+z²)p² − (2k+z²)p + k²/n = 0.
pub fn wilson_roots(n: f64, k: f64, z: f64) -> (f64, f64) {
    let z2 = z * z;
    let a = n + z2;
    let b = 2.0 * k + z2; // −b is the linear coefficient
    let disc = z2 * (z2 + 4.0 * k * (n - k) / n); // b² − 4ac = z⁴ + 4kz² − 4k²z²/n
    let sq = sqrt(disc);
    // z may be negative (levels below ½): lower root uses −|·| in the crate's
    // convention mean − span with span carrying the sign of z.
    let s = if z < 0.0 { -sq } else { sq };
    ((b - s) / (2.0 * a), (b + s) / (2.0 * a))
}
