//! Result collection (`Sink`), evidence / replay / known-findings handling (`Report`).
//!
//! Exit/print contract (DESIGN §2): 0 = held on everything explored; 1 + one line
//! `VIOLATION property=<id> replay=<path>` per *new* failure signature;
//! `KNOWN-FINDING: property=<id> <what>` + exit 0 for signatures listed as `known`
//! in /verif/known_findings.json (never written at run time); 2/3 = machinery errors.

use serde_json::{json, Map, Value};
use std::collections::{BTreeMap, HashSet};
use std::hash::{Hash, Hasher};
use std::path::PathBuf;
use std::time::Instant;

#[derive(Clone, Debug)]
pub struct VRec {
    pub count: u64,
    pub detail: String,
    pub case: Value,
    key: String,
}

#[derive(Default, Clone)]
pub struct Sink {
    /// cases judged (a case = one enumerated input tuple / state)
    pub evals: u64,
    /// implementation calls executed (transitions of the explored system)
    pub calls: u64,
    /// cases enumerated but outside the property's claimed domain (not judged)
    pub skipped: u64,
    outcomes: HashSet<u64>,
    counters: BTreeMap<String, u64>,
    maxima: BTreeMap<String, (f64, String)>,
    viol: BTreeMap<String, VRec>,
    samples: Vec<(String, Value)>,
}

pub fn hash_of<T: Hash + ?Sized>(t: &T) -> u64 {
    let mut h = std::collections::hash_map::DefaultHasher::new();
    t.hash(&mut h);
    h.finish()
}

impl Sink {
    pub fn new() -> Self {
        Self::default()
    }
    pub fn violation(&mut self, sig: impl Into<String>, detail: impl Into<String>, case: Value) {
        let sig = sig.into();
        let detail = detail.into();
        let key = format!("{:08}|{}", case.to_string().len(), case);
        match self.viol.get_mut(&sig) {
            Some(r) => {
                r.count += 1;
                if key < r.key {
                    r.key = key;
                    r.detail = detail;
                    r.case = case;
                }
            }
            None => {
                self.viol.insert(sig, VRec { count: 1, detail, case, key });
            }
        }
    }
    /// record an observed outcome (for the distinct-outcome / vacuity count)
    pub fn outcome<T: Hash + ?Sized>(&mut self, t: &T) {
        self.outcomes.insert(hash_of(t));
    }
    pub fn outcome_hash(&mut self, h: u64) {
        self.outcomes.insert(h);
    }
    pub fn count(&mut self, key: &str, by: u64) {
        *self.counters.entry(key.to_string()).or_insert(0) += by;
    }
    pub fn counter(&self, key: &str) -> u64 {
        self.counters.get(key).copied().unwrap_or(0)
    }
    pub fn max<W: FnOnce() -> String>(&mut self, key: &str, val: f64, witness: W) {
        if val.is_nan() {
            return;
        }
        match self.maxima.get_mut(key) {
            Some((m, w)) => {
                if val > *m {
                    *m = val;
                    *w = witness();
                }
            }
            None => {
                self.maxima.insert(key.to_string(), (val, witness()));
            }
        }
    }
    pub fn maximum(&self, key: &str) -> Option<f64> {
        self.maxima.get(key).map(|x| x.0)
    }
    pub fn sample(&mut self, v: Value) {
        let k = v.to_string();
        if self.samples.len() < 8 || k < self.samples.last().unwrap().0 {
            self.samples.push((k, v));
            self.samples.sort_by(|a, b| a.0.cmp(&b.0));
            self.samples.dedup_by(|a, b| a.0 == b.0);
            self.samples.truncate(8);
        }
    }
    pub fn distinct(&self) -> u64 {
        self.outcomes.len() as u64
    }
    pub fn n_violation_classes(&self) -> usize {
        self.viol.len()
    }
    pub fn violations(&self) -> &BTreeMap<String, VRec> {
        &self.viol
    }
    pub fn merge(mut self, o: Sink) -> Sink {
        self.evals += o.evals;
        self.calls += o.calls;
        self.skipped += o.skipped;
        if self.outcomes.len() < o.outcomes.len() {
            let mut oo = o.outcomes;
            oo.extend(self.outcomes.drain());
            self.outcomes = oo;
        } else {
            self.outcomes.extend(o.outcomes);
        }
        for (k, v) in o.counters {
            *self.counters.entry(k).or_insert(0) += v;
        }
        for (k, (v, w)) in o.maxima {
            match self.maxima.get_mut(&k) {
                Some((m, mw)) => {
                    if v > *m || (v == *m && w < *mw) {
                        *m = v;
                        *mw = w;
                    }
                }
                None => {
                    self.maxima.insert(k, (v, w));
                }
            }
        }
        for (k, r) in o.viol {
            match self.viol.get_mut(&k) {
                Some(m) => {
                    m.count += r.count;
                    if r.key < m.key {
                        m.key = r.key;
                        m.detail = r.detail;
                        m.case = r.case;
                    }
                }
                None => {
                    self.viol.insert(k, r);
                }
            }
        }
        for (_, v) in o.samples {
            self.sample(v);
        }
        self
    }
}

/// Parallel fold of a judge function over a slice of cases (rayon; deterministic
/// merge: every merged quantity is order-independent).
pub fn par_judge<C: Sync, F: Fn(&C, &mut Sink) + Sync>(cases: &[C], f: F) -> Sink {
    use rayon::prelude::*;
    // rayon splits its input into contiguous pieces; job lists are often sorted by cost
    // (or grow in cost with the index), so the cases are dealt out round-robin first: every
    // piece then holds the same mix of cheap and expensive cases
    const K: usize = 256;
    let n = cases.len();
    let order: Vec<usize> = (0..K.min(n)).flat_map(|r| (r..n).step_by(K)).collect();
    debug_assert_eq!(order.len(), n);
    order
        .par_iter()
        .fold(Sink::new, |mut s, &i| {
            f(&cases[i], &mut s);
            s
        })
        .reduce(Sink::new, Sink::merge)
}

/// Parallel fold over an index range.
pub fn par_range<F: Fn(u64, &mut Sink) + Sync>(lo: u64, hi: u64, f: F) -> Sink {
    use rayon::prelude::*;
    (lo..hi)
        .into_par_iter()
        .fold(Sink::new, |mut s, i| {
            f(i, &mut s);
            s
        })
        .reduce(Sink::new, Sink::merge)
}

#[derive(Clone, Copy, PartialEq, Eq, Debug)]
pub enum Tier {
    Quick,
    Thorough,
}

impl Tier {
    pub fn name(self) -> &'static str {
        match self {
            Tier::Quick => "quick",
            Tier::Thorough => "thorough",
        }
    }
    pub fn pick<T>(self, quick: T, thorough: T) -> T {
        match self {
            Tier::Quick => quick,
            Tier::Thorough => thorough,
        }
    }
}

pub fn verif_root() -> PathBuf {
    PathBuf::from(std::env::var("VERIF_ROOT").unwrap_or_else(|_| "/verif".to_string()))
}

pub struct Report {
    pub property: String,
    pub tier: Tier,
    pub seed: i64,
    start: Instant,
    pub rule: String,
    pub assumptions: Vec<String>,
    pub extra: Map<String, Value>,
    pub exhaustive: bool,
    pub states: Option<u64>,
    machinery_errors: Vec<String>,
}

pub enum Cmd {
    Run,
    Replay(PathBuf),
}

/// Parse `<bin> [quick|thorough] | replay <file>`; tier also from VERIF_TIER.
pub fn parse_args() -> (Cmd, Tier) {
    let args: Vec<String> = std::env::args().skip(1).collect();
    let mut tier = match std::env::var("VERIF_TIER").ok().as_deref() {
        Some("thorough") => Tier::Thorough,
        _ => Tier::Quick,
    };
    let mut cmd = Cmd::Run;
    let mut i = 0;
    while i < args.len() {
        match args[i].as_str() {
            "quick" | "--quick" => tier = Tier::Quick,
            "thorough" | "--thorough" => tier = Tier::Thorough,
            "replay" | "--replay" => {
                i += 1;
                cmd = Cmd::Replay(PathBuf::from(args.get(i).expect("replay needs a file")));
            }
            other => {
                eprintln!("unknown argument {other}");
                std::process::exit(2);
            }
        }
        i += 1;
    }
    (cmd, tier)
}

impl Report {
    pub fn new(property: &str, tier: Tier) -> Self {
        let seed = std::env::var("VERIF_SEED").ok().and_then(|s| s.parse::<i64>().ok()).unwrap_or(0);
        // a panic outside catch-wrapped subject calls ends the run: classified by where it
        // was raised (see fatal_panic) so that a harness bug cannot be mistaken for a verdict
        // and an implementation panic is not lost as a mere crash
        let _ = RUN_INFO.set((property.to_string(), tier.name().to_string(), Instant::now()));
        install_hook();
        Report {
            property: property.to_string(),
            tier,
            seed,
            start: Instant::now(),
            rule: String::new(),
            assumptions: vec![
                "VERIF_SEED is recorded but unused: every deciding step is an exhaustive enumeration, nothing is sampled".to_string(),
            ],
            extra: Map::new(),
            exhaustive: true,
            states: None,
            machinery_errors: vec![],
        }
    }
    pub fn assume(&mut self, s: &str) {
        self.assumptions.push(s.to_string());
    }
    pub fn note(&mut self, k: &str, v: Value) {
        self.extra.insert(k.to_string(), v);
    }
    /// vacuity floor / self-test: failing it is a machinery error (exit 3), never a verdict
    pub fn require(&mut self, cond: bool, msg: &str) {
        if !cond {
            self.machinery_errors.push(msg.to_string());
        }
    }
    pub fn elapsed(&self) -> f64 {
        self.start.elapsed().as_secs_f64()
    }

    fn known(&self) -> Vec<Value> {
        let p = verif_root().join("known_findings.json");
        match std::fs::read_to_string(&p) {
            Ok(s) => match serde_json::from_str::<Value>(&s) {
                Ok(v) => v.get("findings").and_then(|f| f.as_array()).cloned().unwrap_or_default(),
                Err(e) => {
                    eprintln!("machinery: cannot parse {}: {e}", p.display());
                    std::process::exit(3);
                }
            },
            Err(_) => vec![],
        }
    }

    /// Write evidence, replay files; print the verdict lines; return the exit code.
    pub fn finish(mut self, sink: Sink) -> i32 {
        let root = verif_root();
        let known = self.known();
        let mut new_v = 0u64;
        let mut known_v = 0u64;
        let mut lines = vec![];
        let _ = std::fs::create_dir_all(root.join("replays"));
        let _ = std::fs::create_dir_all(root.join("evidence"));
        // remove stale replay files of this property
        if let Ok(rd) = std::fs::read_dir(root.join("replays")) {
            for e in rd.flatten() {
                let n = e.file_name().to_string_lossy().to_string();
                if n.starts_with(&format!("{}-", self.property)) {
                    let _ = std::fs::remove_file(e.path());
                }
            }
        }
        let mut vio_summ = vec![];
        for (idx, (sig, rec)) in sink.viol.iter().enumerate() {
            let is_known = known.iter().any(|k| {
                k.get("property").and_then(|x| x.as_str()) == Some(self.property.as_str())
                    && k.get("status").and_then(|x| x.as_str()) == Some("known")
                    && k.get("signature").and_then(|x| x.as_str()) == Some(sig.as_str())
            });
            if is_known {
                known_v += 1;
                lines.push(format!(
                    "KNOWN-FINDING: property={} {} [{} case(s); e.g. {}]",
                    self.property, sig, rec.count, rec.detail
                ));
                vio_summ.push(json!({"signature": sig, "count": rec.count, "known": true, "detail": rec.detail}));
            } else {
                new_v += 1;
                let path = root.join("replays").join(format!("{}-{:03}.json", self.property, idx));
                let body = json!({
                    "property": self.property,
                    "signature": sig,
                    "detail": rec.detail,
                    "count_in_this_run": rec.count,
                    "case": rec.case,
                });
                if let Err(e) = std::fs::write(&path, serde_json::to_string_pretty(&body).unwrap()) {
                    eprintln!("machinery: cannot write {}: {e}", path.display());
                }
                if new_v <= 40 {
                    lines.push(format!("VIOLATION property={} replay={}", self.property, path.display()));
                    lines.push(format!("  signature: {sig}\n  detail: {} ({} case(s))", rec.detail, rec.count));
                }
                vio_summ.push(json!({"signature": sig, "count": rec.count, "known": false, "detail": rec.detail, "replay": path}));
            }
        }
        let states = self.states.unwrap_or(sink.evals).max(0);
        let mut cov = Map::new();
        cov.insert("states".into(), json!(states));
        cov.insert("transitions".into(), json!(sink.calls));
        cov.insert("traces_validated_against_impl".into(), json!(sink.calls));
        cov.insert("evaluations".into(), json!(sink.evals));
        cov.insert("distinct_nontrivial".into(), json!(sink.distinct()));
        cov.insert("skipped_outside_domain".into(), json!(sink.skipped));
        cov.insert("rule".into(), json!(self.rule));
        cov.insert("exhaustive".into(), json!(self.exhaustive));
        let samples: Vec<Value> = sink.samples.iter().map(|(_, v)| v.clone()).collect();
        cov.insert("samples".into(), json!(samples));
        cov.insert("counters".into(), json!(sink.counters));
        let maxima: Map<String, Value> = sink
            .maxima
            .iter()
            .map(|(k, (v, w))| (k.clone(), json!({"max": v, "witness": w})))
            .collect();
        cov.insert("maxima".into(), Value::Object(maxima));
        cov.insert("violation_classes".into(), json!(vio_summ));
        for (k, v) in self.extra.iter() {
            cov.insert(k.clone(), v.clone());
        }
        if samples.is_empty() {
            self.machinery_errors.push("no sample cases recorded".into());
        }
        if states == 0 || sink.calls == 0 {
            self.machinery_errors.push("vacuous run: zero states or transitions".into());
        }
        let ev = json!({
            "property_id": self.property,
            "tier": self.tier.name(),
            "seed": self.seed,
            "level": "model_checking",
            "coverage": Value::Object(cov),
            "assumptions": self.assumptions,
            "wall_s": self.start.elapsed().as_secs_f64(),
            "violations": new_v,
            "known_findings_reported": known_v,
            "machinery_errors": self.machinery_errors,
        });
        let evp = root.join("evidence").join(format!("{}.json", self.property));
        if let Err(e) = std::fs::write(&evp, serde_json::to_string_pretty(&ev).unwrap()) {
            eprintln!("machinery: cannot write evidence {}: {e}", evp.display());
            return 3;
        }
        for l in &lines {
            println!("{l}");
        }
        println!(
            "{} {}: states={} transitions={} evaluations={} distinct_outcomes={} skipped={} new_violation_classes={} known={} wall={:.1}s",
            self.property,
            self.tier.name(),
            states,
            sink.calls,
            sink.evals,
            sink.distinct(),
            sink.skipped,
            new_v,
            known_v,
            self.start.elapsed().as_secs_f64()
        );
        for (k, (v, w)) in sink.maxima.iter() {
            println!("  max {k} = {v:.4e}  at {w}");
        }
        if !self.machinery_errors.is_empty() {
            for m in &self.machinery_errors {
                eprintln!("MACHINERY-ERROR: {m}");
            }
            if new_v == 0 {
                return 3;
            }
        }
        if new_v > 0 {
            1
        } else {
            0
        }
    }
}

/// Load the `case` value of a replay file.
pub fn load_replay(path: &std::path::Path) -> (String, Value) {
    let s = std::fs::read_to_string(path).unwrap_or_else(|e| {
        eprintln!("cannot read {}: {e}", path.display());
        std::process::exit(2)
    });
    let v: Value = serde_json::from_str(&s).unwrap_or_else(|e| {
        eprintln!("cannot parse {}: {e}", path.display());
        std::process::exit(2)
    });
    (
        v.get("signature").and_then(|x| x.as_str()).unwrap_or("").to_string(),
        v.get("case").cloned().unwrap_or(Value::Null),
    )
}

/// Standard replay driver: run the judge twice on the recorded case, require
/// identical observations, print them, exit 1 if the case (still) violates.
pub fn replay_main<F: Fn(&Value, &mut Sink)>(property: &str, path: &std::path::Path, judge: F) -> i32 {
    let (sig, case) = load_replay(path);
    if case["check"] == "uncaught-panic" {
        println!("replay {property}: the recorded violation is a panic inside the implementation at {}:{} ({}); it aborted the run, so the failing input is not recorded - re-run `{}` (it fails at the same site on every run: the enumeration order is fixed)", case["file"].as_str().unwrap_or("?"), case["line"], case["message"].as_str().unwrap_or(""), case["replay"].as_str().unwrap_or(""));
        return 2;
    }
    let mut s1 = Sink::new();
    judge(&case, &mut s1);
    let mut s2 = Sink::new();
    judge(&case, &mut s2);
    let d1: Vec<_> = s1.viol.iter().map(|(k, r)| (k.clone(), r.detail.clone())).collect();
    let d2: Vec<_> = s2.viol.iter().map(|(k, r)| (k.clone(), r.detail.clone())).collect();
    if d1 != d2 {
        eprintln!("MACHINERY-ERROR: replay is not deterministic: {d1:?} vs {d2:?}");
        return 3;
    }
    println!("replay {property} case={case}");
    println!("recorded signature: {sig}");
    if d1.is_empty() {
        println!("replay: no violation on the current tree");
        0
    } else {
        for (k, d) in d1 {
            println!("replay: VIOLATES {k}: {d}");
        }
        1
    }
}

/// Run `f` catching panics; returns Err(message) on panic. The default panic hook is
/// silenced for the duration of the harness (installed once by `quiet_panics`).
pub fn catch<R, F: FnOnce() -> R + std::panic::UnwindSafe>(f: F) -> Result<R, String> {
    CATCH_DEPTH.with(|c| c.set(c.get() + 1));
    let r = std::panic::catch_unwind(f);
    CATCH_DEPTH.with(|c| c.set(c.get() - 1));
    match r {
        Ok(r) => Ok(r),
        Err(e) => {
            let msg = if let Some(s) = e.downcast_ref::<&str>() {
                s.to_string()
            } else if let Some(s) = e.downcast_ref::<String>() {
                s.clone()
            } else {
                "<non-string panic>".to_string()
            };
            Err(msg)
        }
    }
}

thread_local! {
    pub static LAST_PANIC_LOC: std::cell::RefCell<String> = std::cell::RefCell::new(String::new());
    /// > 0 while this thread is inside `catch` (a panic there is expected and handled)
    static CATCH_DEPTH: std::cell::Cell<u32> = const { std::cell::Cell::new(0) };
}

/// (property, tier) of the running check, for the fatal-panic handler
static RUN_INFO: std::sync::OnceLock<(String, String, Instant)> = std::sync::OnceLock::new();

fn panic_message(info: &std::panic::PanicHookInfo<'_>) -> String {
    if let Some(s) = info.payload().downcast_ref::<&str>() {
        s.to_string()
    } else if let Some(s) = info.payload().downcast_ref::<String>() {
        s.clone()
    } else {
        "<non-string panic>".to_string()
    }
}

/// A panic outside `catch` ends the check. If it was raised inside stats-ci (or inside
/// statrs on its behalf) on an input the check expected an answer for, that is a violation
/// of the property under check and is reported as one (exit 1, VIOLATION line, replay file
/// naming the panic site); a panic anywhere else is a bug of the harness (exit 3).
fn fatal_panic(file: &str, line: u32, msg: &str) -> ! {
    let (property, tier, start) = match RUN_INFO.get() {
        Some(x) => (x.0.clone(), x.1.clone(), x.2),
        None => {
            eprintln!("MACHINERY-ERROR: panic at {file}:{line}: {msg}");
            std::process::exit(3)
        }
    };
    let in_impl = file.starts_with("src/") || file.contains("/repo/") || file.contains("/statrs-");
    if !in_impl {
        eprintln!("MACHINERY-ERROR: harness panic at {file}:{line}: {msg}");
        std::process::exit(3);
    }
    let root = verif_root();
    let _ = std::fs::create_dir_all(root.join("replays"));
    let _ = std::fs::create_dir_all(root.join("evidence"));
    let sig = format!("uncaught-panic-in-implementation/{file}:{line}");
    let detail = format!("stats-ci panicked at {file}:{line} ({msg}) on an input for which the check expects an answer; the run was aborted at that point");
    let path = root.join("replays").join(format!("{property}-000.json"));
    let body = json!({"property": property, "signature": sig, "detail": detail, "count_in_this_run": 1,
        "case": {"check": "uncaught-panic", "file": file, "line": line, "message": msg, "replay": format!("./run.sh {property} {tier}")}});
    let _ = std::fs::write(&path, serde_json::to_string_pretty(&body).unwrap());
    let ev = json!({
        "property_id": property, "tier": tier, "seed": 0, "level": "model_checking",
        "coverage": {"states": 0, "transitions": 0, "traces_validated_against_impl": 0, "evaluations": 0, "distinct_nontrivial": 0,
            "rule": "run aborted by a panic inside the implementation; counts of the aborted run are not available",
            "samples": [body["case"].clone()], "exhaustive": false,
            "violation_classes": [{"signature": sig, "count": 1, "known": false, "detail": detail, "replay": path}]},
        "assumptions": [], "wall_s": start.elapsed().as_secs_f64(), "violations": 1, "known_findings_reported": 0,
        "machinery_errors": []});
    let _ = std::fs::write(root.join("evidence").join(format!("{property}.json")), serde_json::to_string_pretty(&ev).unwrap());
    println!("VIOLATION property={property} replay={}", path.display());
    println!("  signature: {sig}\n  detail: {detail}");
    std::process::exit(1)
}

fn install_hook() {
    std::panic::set_hook(Box::new(|info| {
        let (file, line) = info.location().map(|l| (l.file().to_string(), l.line())).unwrap_or_default();
        LAST_PANIC_LOC.with(|c| *c.borrow_mut() = format!("{file}:{line}"));
        let expected = CATCH_DEPTH.with(|c| c.get()) > 0;
        if !expected && RUN_INFO.get().is_some() {
            fatal_panic(&file, line, &panic_message(info));
        }
    }));
}

/// Install a panic hook that records the location (file:line) in a thread-local and
/// prints nothing; harness-internal panics are still visible through `catch`'s Err.
pub fn quiet_panics() {
    install_hook();
}

pub fn last_panic_loc() -> String {
    LAST_PANIC_LOC.with(|c| c.borrow().clone())
}
