//! Oracle self-test: on every run the distribution oracles are compared with the
//! committed mpmath tables in /verif/oracle_ref. A disagreement beyond the stated
//! thresholds is a *machinery* error (exit 3), never a verdict about stats-ci.

use crate::oracle::*;
use crate::report::verif_root;
use serde_json::Value;

pub struct SelfTest {
    pub points: usize,
    pub worst_t_cdf_abs: f64,
    pub worst_t_tail_rel: f64,
    pub worst_norm_abs: f64,
    pub worst_norm_ppf_abs: f64,
    pub worst_t_ppf_rel: f64,
    pub worst_binom_rel: f64,
    pub ok: bool,
    pub msg: String,
}

fn load(name: &str) -> Value {
    let p = verif_root().join("oracle_ref").join(name);
    let s = std::fs::read_to_string(&p).unwrap_or_else(|e| {
        eprintln!("MACHINERY-ERROR: cannot read {}: {e}", p.display());
        std::process::exit(3)
    });
    serde_json::from_str(&s).unwrap_or_else(|e| {
        eprintln!("MACHINERY-ERROR: cannot parse {}: {e}", p.display());
        std::process::exit(3)
    })
}

fn f(v: &Value) -> f64 {
    v.as_f64().unwrap()
}

pub fn run() -> SelfTest {
    let mut st = SelfTest {
        points: 0,
        worst_t_cdf_abs: 0.0,
        worst_t_tail_rel: 0.0,
        worst_norm_abs: 0.0,
        worst_norm_ppf_abs: 0.0,
        worst_t_ppf_rel: 0.0,
        worst_binom_rel: 0.0,
        ok: true,
        msg: String::new(),
    };
    let t = load("t_cdf.json");
    for r in t["rows"].as_array().unwrap() {
        let (tt, nu, c, s) = (f(&r[0]), f(&r[1]), f(&r[2]), f(&r[3]));
        let oc = t_cdf(tt, nu);
        let os = t_sf(tt, nu);
        st.points += 1;
        st.worst_t_cdf_abs = st.worst_t_cdf_abs.max((oc - c).abs()).max((os - s).abs());
        let tail = c.min(s);
        let otail = oc.min(os);
        if tail > 1e-300 {
            st.worst_t_tail_rel = st.worst_t_tail_rel.max(((otail - tail) / tail).abs());
        }
    }
    let n = load("norm.json");
    for r in n["cdf"].as_array().unwrap() {
        let (z, c, s) = (f(&r[0]), f(&r[1]), f(&r[2]));
        st.points += 1;
        let e1 = (norm_cdf(z) - c).abs() / c.max(1e-300).min(1.0).max(c);
        let e2 = (norm_sf(z) - s).abs() / s.max(1e-300).min(1.0).max(s);
        st.worst_norm_abs = st.worst_norm_abs.max(e1).max(e2);
    }
    for r in n["ppf"].as_array().unwrap() {
        let (p, z) = (f(&r[0]), f(&r[1]));
        st.points += 1;
        st.worst_norm_ppf_abs = st.worst_norm_ppf_abs.max((norm_ppf(p) - z).abs());
    }
    let tp = load("t_ppf.json");
    for r in tp["rows"].as_array().unwrap() {
        let (p, nu, tq) = (f(&r[0]), f(&r[1]), f(&r[2]));
        st.points += 1;
        let o = t_ppf(p, nu);
        let e = (o - tq).abs() / tq.abs().max(1e-3);
        st.worst_t_ppf_rel = st.worst_t_ppf_rel.max(e);
    }
    let b = load("binom.json");
    let mut cache: Option<(usize, f64, Vec<f64>)> = None;
    for r in b["rows"].as_array().unwrap() {
        let (nn, p, k, pmf) = (f(&r[0]) as usize, f(&r[1]), f(&r[2]) as usize, f(&r[3]));
        if cache.as_ref().map(|c| c.0 != nn || c.1 != p).unwrap_or(true) {
            cache = Some((nn, p, binom_pmf_vec(nn, p)));
        }
        let v = &cache.as_ref().unwrap().2;
        st.points += 1;
        if pmf > 1e-280 {
            st.worst_binom_rel = st.worst_binom_rel.max(((v[k] - pmf) / pmf).abs());
        }
    }
    let mut msgs = vec![];
    if st.worst_t_cdf_abs > 1e-11 {
        msgs.push(format!("t cdf abs err {:.3e} > 1e-11", st.worst_t_cdf_abs));
    }
    if st.worst_t_tail_rel > 1e-9 {
        msgs.push(format!("t tail rel err {:.3e} > 1e-9", st.worst_t_tail_rel));
    }
    if st.worst_norm_abs > 1e-12 {
        msgs.push(format!("normal cdf/sf rel err {:.3e} > 1e-12", st.worst_norm_abs));
    }
    if st.worst_norm_ppf_abs > 1e-11 {
        msgs.push(format!("normal ppf abs err {:.3e} > 1e-11", st.worst_norm_ppf_abs));
    }
    if st.worst_t_ppf_rel > 1e-9 {
        msgs.push(format!("t ppf rel err {:.3e} > 1e-9", st.worst_t_ppf_rel));
    }
    if st.worst_binom_rel > 1e-9 {
        msgs.push(format!("binomial pmf rel err {:.3e} > 1e-9", st.worst_binom_rel));
    }
    if st.points < 3000 {
        msgs.push(format!("only {} reference points", st.points));
    }
    st.ok = msgs.is_empty();
    st.msg = msgs.join("; ");
    st
}

impl SelfTest {
    pub fn to_json(&self) -> Value {
        serde_json::json!({
            "reference_points": self.points,
            "worst_t_cdf_abs_err": self.worst_t_cdf_abs,
            "worst_t_tail_rel_err": self.worst_t_tail_rel,
            "worst_normal_rel_err": self.worst_norm_abs,
            "worst_normal_ppf_abs_err": self.worst_norm_ppf_abs,
            "worst_t_ppf_rel_err": self.worst_t_ppf_rel,
            "worst_binom_pmf_rel_err": self.worst_binom_rel,
            "ok": self.ok,
        })
    }
}
