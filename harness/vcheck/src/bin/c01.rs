//! C01 — arithmetic-mean CI is the Student-t interval of the exact sample statistics.
//! D1: every sequence over stated alphabets up to a length bound x confidences x
//! f32/f64 x call styles. D2: streaming states queried at every n of dense ranges on
//! both sides of the t->z switch. Oracle: exact rational statistics + independent CDF.

use mc::exact::{exact_stats, exact_stats_runs, ExactStats};
use mc::explore::nth_sequence;
use mc::{json, par_judge, Cmd, Kind, Report, Sink, Tier, Value};
use stats_ci::mean::Arithmetic;
use stats_ci::{Interval, MeanCI, StatisticsOps};
use vcheck::meanchk::{judge_interval, Expect};
use vcheck::{conf, shape, Fl};

const P: &str = "C01";

const A_DYADIC: [f64; 8] = [-3.0, -1.0, -0.5, 0.0, 0.25, 1.0, 2.0, 1000.0];
const A_NONDYADIC: [f64; 6] = [0.1, 0.3, 1.1, 1e-3, 123.456, 1e10 + 0.1];

#[derive(Clone, Copy, Debug, PartialEq, Eq, Hash, serde::Serialize, serde::Deserialize)]
enum Style {
    Ci,
    OpsCi,
    MeanCi,
    FromIter,
    Append,
    Extend2,
}
const STYLES_ALL: [Style; 6] = [Style::Ci, Style::OpsCi, Style::MeanCi, Style::FromIter, Style::Append, Style::Extend2];
const STYLES_QUICK: [Style; 3] = [Style::Ci, Style::Append, Style::Extend2];

fn run_style<F: Fl>(st: Style, c: stats_ci::Confidence, data: &Vec<F>) -> stats_ci::CIResult<Interval<F>> {
    match st {
        Style::Ci => Arithmetic::<F>::ci(c, data),
        Style::OpsCi => <Arithmetic<F> as StatisticsOps<F>>::ci(c, data),
        Style::MeanCi => <Arithmetic<F> as MeanCI<F>>::ci(c, data),
        Style::FromIter => Arithmetic::<F>::from_iter(data)?.ci_mean(c),
        Style::Append => {
            let mut a = Arithmetic::<F>::new();
            for &x in data {
                StatisticsOps::append(&mut a, x)?;
            }
            a.ci_mean(c)
        }
        Style::Extend2 => {
            let mut a = Arithmetic::<F>::new();
            let (l, r) = data.split_at(data.len() / 2);
            a.extend(&l.to_vec())?;
            a.extend(&r.to_vec())?;
            a.ci_mean(c)
        }
    }
}

fn expect_for<F: Fl>(ex: &ExactStats) -> Expect {
    let n = ex.n as f64;
    Expect {
        center: ex.mean_f(),
        center_tol: 8.0 * F::U * ex.sum_abs_f() / n + f64::MIN_POSITIVE,
        se: ex.se_f(),
        dof: n - 1.0,
        eps: 16.0 * F::U * ex.cond_sumsq(),
        u: F::U,
        se_abs: (16.0 * F::U * mc::exact::to_f64(&ex.sum_sq) / ((n - 1.0).max(1.0) * n)).sqrt(),
    }
}

/// data values as exact doubles of the float type F
fn as_f<F: Fl>(xs: &[f64]) -> (Vec<F>, Vec<f64>) {
    let d: Vec<F> = xs.iter().map(|&x| F::of(x)).collect();
    let back = d.iter().map(|x| x.f()).collect();
    (d, back)
}

fn judge_sample<F: Fl>(xs: &[f64], confs: &[(Kind, f64)], styles: &[Style], s: &mut Sink) {
    let (data, exact_xs) = as_f::<F>(xs);
    let ex = exact_stats(&exact_xs);
    let e = expect_for::<F>(&ex);
    for &(kind, level) in confs {
        s.evals += 1;
        let c = conf(kind, level);
        let case = |st: Style| json!({"check":"D1","type":F::NAME,"xs":xs,"kind":kind,"level":level,"style":st});
        let mut first: Option<(Kind, f64, f64)> = None;
        for &st in styles {
            s.calls += 1;
            match run_style::<F>(st, c, &data) {
                Err(err) => {
                    s.violation(format!("D1/valid-sample-rejected/{}", vcheck::err_name(&err)), format!("{st:?} on {xs:?} ({}) {c:?} = Err({err})", F::NAME), case(st));
                }
                Ok(iv) => {
                    let sh = shape(&iv);
                    match first {
                        None => {
                            first = Some(sh);
                            s.outcome(&(F::NAME, kind, ex.var_f() == 0.0, (sh.1.to_bits() ^ sh.2.to_bits()) & 0xff));
                            judge_interval("D1", kind, level, sh, &e, &|| case(st), &|| format!("{st:?}({c:?}, {xs:?} as {})", F::NAME), s);
                        }
                        Some(f) => {
                            let close = |a: f64, b: f64| a == b || (a.is_finite() && b.is_finite() && (a - b).abs() <= 4.0 * F::U * a.abs().max(b.abs())) || (a.is_nan() && b.is_nan());
                            if f.0 != sh.0 || !close(f.1, sh.1) || !close(f.2, sh.2) {
                                s.violation(format!("D1/call-styles-disagree/{st:?}"), format!("{xs:?} ({}) {c:?}: {:?} gives {f:?}, {st:?} gives {sh:?}", F::NAME, styles[0]), case(st));
                            }
                        }
                    }
                }
            }
        }
    }
}

// ---------------- D1e: magnitudes next to the top of the float type -------------------
//
// n observations c_i * 2^e with c_i in {1, 1.25, 1.5} and e as large as possible with
// sum x^2 <= MAX/sqrt(2): every quantity the interval needs (mean, sum of squares, variance,
// bounds) is representable, but (sum x)^2 is not for same-sign data. An Ok answer is judged
// like any other; an Err is accepted here (an implementation may report that an intermediate
// overflowed) and counted as skipped - what is not accepted is a silently wrong interval.
const EDGE_PATTERNS: [&[f64]; 3] = [&[1.0, 1.5, 1.25, 1.0], &[1.5, -1.0, 1.25], &[-1.0, -1.5, -1.25, -1.0, -1.5]];

fn edge_exponent<F: Fl>(n: usize) -> i32 {
    let emax = if F::NAME == "f32" { 128.0 } else { 1024.0 };
    ((emax - 0.5 - (2.25 * n as f64).log2()) / 2.0).floor() as i32
}

fn judge_edge<F: Fl>(pi: usize, n: usize, confs: &[(Kind, f64)], s: &mut Sink) {
    let k = 2f64.powi(edge_exponent::<F>(n));
    let pat = EDGE_PATTERNS[pi];
    let xs: Vec<f64> = (0..n).map(|i| pat[i % pat.len()] * k).collect();
    let (data, exact_xs) = as_f::<F>(&xs);
    let ex = exact_stats(&exact_xs);
    let e = expect_for::<F>(&ex);
    for &(kind, level) in confs {
        let c = conf(kind, level);
        for &st in STYLES_QUICK.iter() {
            s.evals += 1;
            s.calls += 1;
            let case = || json!({"check":"D1e","type":F::NAME,"pattern":pi,"n":n,"kind":kind,"level":level,"style":st});
            match run_style::<F>(st, c, &data) {
                Err(_) => s.skipped += 1,
                Ok(iv) => {
                    s.outcome(&("D1e", F::NAME, kind, pi));
                    judge_interval("D1e", kind, level, shape(&iv), &e, &case, &|| format!("{st:?}({c:?}, {n} observations {pat:?} x 2^{} as {})", edge_exponent::<F>(n), F::NAME), s);
                }
            }
        }
    }
}

// ---------------- D2: streaming ------------------------------------------------------

const PATTERNS: [&[f64]; 6] = [&[1.0, -1.0], &[1.0, 2.0, 3.0], &[-5.0, -5.0, -2.0], &[0.1, 0.3], &[1_000_001.0, 999_999.0], &[-1000.0, -1001.0, -999.5]];

fn prefix_stats<F: Fl>(pat: &[f64], n: usize) -> ExactStats {
    let l = pat.len();
    let runs: Vec<(f64, u64)> = pat.iter().enumerate().map(|(i, &v)| (F::of(v).f(), (n / l + (i < n % l) as usize) as u64)).collect();
    exact_stats_runs(&runs)
}

fn query_points(tier: Tier) -> Vec<usize> {
    let mut v: Vec<usize> = vec![];
    match tier {
        Tier::Quick => {
            v.extend(2..=3000);
            v.extend(99_000..=101_000);
            let mut p = 4096;
            while p < 99_000 {
                v.push(p);
                v.push(p + 1);
                p *= 2;
            }
            v.extend([10_000, 10_001, 20_000, 50_000]);
            // regression points of the repaired t-quantile defect (statrs' inverse cdf fails there)
            v.extend([49_519, 87_818]);
        }
        Tier::Thorough => v.extend(2..=101_000),
    }
    v.extend([131_072, 200_001]);
    v.sort();
    v.dedup();
    v
}

/// one worker: float type F, query points `pts` (ascending); feeds every pattern from
/// n = 1 one observation at a time and judges at each query point
fn judge_stream<F: Fl>(pts: &[usize], npat: usize, confs: &[(Kind, f64)], s: &mut Sink) {
    let last = *pts.last().unwrap();
    // c values of pattern 0 per (query idx, conf idx) for the cross-pattern comparison
    let mut c0: Vec<Vec<Option<(f64, f64)>>> = vec![vec![None; confs.len()]; pts.len()];
    for (pi, pat) in PATTERNS.iter().take(npat).enumerate() {
        let mut st = Arithmetic::<F>::new();
        let mut qi = 0;
        for n in 1..=last {
            StatisticsOps::append(&mut st, F::of(pat[(n - 1) % pat.len()])).unwrap();
            s.calls += 1;
            if qi < pts.len() && pts[qi] == n {
                let ex = prefix_stats::<F>(pat, n);
                let e = expect_for::<F>(&ex);
                if st.sample_count() != n {
                    s.violation("D2/count", format!("after {n} appends sample_count() = {}", st.sample_count()), json!({"check":"D2","type":F::NAME,"pattern":pi,"n":n}));
                }
                for (ci, &(kind, level)) in confs.iter().enumerate() {
                    s.evals += 1;
                    s.calls += 1;
                    let c = conf(kind, level);
                    let case = || json!({"check":"D2","type":F::NAME,"pattern":pi,"n":n,"kind":kind,"level":level});
                    match st.ci_mean(c) {
                        Err(err) => s.violation(format!("D2/valid-sample-rejected/{}", vcheck::err_name(&err)), format!("pattern {pat:?} n={n} ({}) {c:?} = Err({err})", F::NAME), case()),
                        Ok(iv) => {
                            let sh = shape(&iv);
                            let (hl, hh) = judge_interval("D2", kind, level, sh, &e, &case, &|| format!("stream of {pat:?} ({}) at n={n}, {c:?}", F::NAME), s);
                            s.outcome(&(F::NAME, pi, kind, vcheck::meanchk::decade(e.dof)));
                            // metamorphic: implied critical value is data-independent
                            let h = hl.or(hh);
                            if let Some(h) = h {
                                let cv = h / e.se;
                                let abs_err = (e.center_tol + 2.0 * F::U * (e.center.abs() + h.abs())) / e.se;
                                if pi == 0 {
                                    c0[qi][ci] = Some((cv, e.eps * cv.abs() + abs_err));
                                } else if let Some((c_ref, err_ref)) = c0[qi][ci] {
                                    let tol = err_ref + e.eps * cv.abs() + abs_err + 1e-15 * cv.abs();
                                    if tol <= 1e-3 * cv.abs().max(1e-3) {
                                        s.max("cross_pattern_c_dev_over_tol", (cv - c_ref).abs() / tol, || format!("{} n={n} pattern {pi} {c:?}", F::NAME));
                                        if !((cv - c_ref).abs() <= tol) {
                                            s.violation(
                                                format!("D2/critical-value-depends-on-data/{}", kind.name()),
                                                format!("n={n} {c:?} ({}): half-width/se = {cv:?} for pattern {pat:?} but {c_ref:?} for pattern {:?}", F::NAME, PATTERNS[0]),
                                                case(),
                                            );
                                        }
                                    }
                                }
                            }
                        }
                    }
                }
                qi += 1;
            }
        }
    }
}

/// D3: the one-shot entry points on long materialised vectors (the streaming checks of D2
/// only exercise `append`): same oracle, exact statistics from the run lengths
fn judge_long_vector<F: Fl>(pi: usize, n: usize, confs: &[(Kind, f64)], s: &mut Sink) {
    let pat = PATTERNS[pi];
    let data: Vec<F> = (0..n).map(|i| F::of(pat[i % pat.len()])).collect();
    let ex = prefix_stats::<F>(pat, n);
    let e = expect_for::<F>(&ex);
    for &(kind, level) in confs {
        let c = conf(kind, level);
        for st in STYLES_ALL {
            s.evals += 1;
            s.calls += 1;
            let case = || json!({"check":"D3","type":F::NAME,"pattern":pi,"n":n,"kind":kind,"level":level,"style":st});
            match run_style::<F>(st, c, &data) {
                Err(err) => s.violation(format!("D3/valid-sample-rejected/{}", vcheck::err_name(&err)), format!("{st:?} on {n} values of pattern {pat:?} ({}) = Err({err})", F::NAME), case()),
                Ok(iv) => {
                    judge_interval(&format!("D3/{st:?}"), kind, level, shape(&iv), &e, &case, &|| format!("{st:?}({c:?}, {n} values cycling {pat:?} as {})", F::NAME), s);
                    s.outcome(&(F::NAME, "D3", format!("{st:?}"), kind));
                }
            }
        }
    }
}

enum Job {
    Long { pattern: usize, n: usize, f32_: bool },
    /// a dyadic sequence multiplied by 2^e (exact): small / large magnitudes
    Scaled { len: usize, idx: u64, e: i32, f32_: bool },
    Seq { dyadic: bool, len: usize, idx: u64, f32_: bool },
    Edge { pattern: usize, n: usize, f32_: bool },
    Stream { f32_: bool, pts: Vec<usize> },
    /// one sample asked for a chain of nearly equal levels, kind by kind
    LevelChain { sample: usize },
}

/// samples for the level chains (n = 2, 4, 5, 12: 1, 3, 4, 11 degrees of freedom)
const CHAIN_SAMPLES: [&[f64]; 4] = [&[1.0, 2.0], &[-3.0, -1.0, 0.25, 2.0], &[0.25, 1.0, 2.0, -0.5, 3.0], &[1.0, -1.0, 1.0, -1.0, 0.25, -1.0, 1.0, -1.0, 1.0, -1.0, 1.0, -0.5]];

/// every grid level with neighbours at +-1e-9, +-3e-8, +-6e-8, +-1e-7, +-1e-6, requested one
/// after the other (kind-major, ascending): each answer is judged against the oracle on its own,
/// so an interval that is really that of a neighbouring level (a tolerance-keyed memo, a level
/// rounded through f32, a coarse lookup table) is off by the distance between the two levels
fn chain_confs() -> Vec<(Kind, f64)> {
    let mut v = vec![];
    for k in mc::KINDS {
        for &l in mc::LG.iter() {
            for d in [-1e-6, -1e-7, -6e-8, -3e-8, -1e-9, 0.0, 1e-9, 3e-8, 6e-8, 1e-7, 1e-6] {
                let x = l + d;
                if x > 0.0 && x < 1.0 {
                    v.push((k, x));
                }
            }
        }
    }
    v
}

fn run(tier: Tier) -> Sink {
    let confs = vcheck::confs(tier);
    let styles: &[Style] = match tier {
        Tier::Quick => &STYLES_QUICK,
        Tier::Thorough => &STYLES_ALL,
    };
    let (max_dy, max_nd) = tier.pick((4, 3), (6, 5));
    let mut jobs = vec![];
    for f32_ in [false, true] {
        for len in 2..=max_dy {
            for idx in 0..(A_DYADIC.len() as u64).pow(len as u32) {
                jobs.push(Job::Seq { dyadic: true, len, idx, f32_ });
            }
        }
        for len in 2..=max_nd {
            for idx in 0..(A_NONDYADIC.len() as u64).pow(len as u32) {
                jobs.push(Job::Seq { dyadic: false, len, idx, f32_ });
            }
        }
        // magnitudes: every dyadic sequence of length 2..3 scaled by powers of two
        let exps: &[i32] = if f32_ { &[-40, -20, 20, 40] } else { &[-300, -60, -30, 40, 300] };
        for &e in exps {
            for len in 2..=3 {
                for idx in 0..(A_DYADIC.len() as u64).pow(len as u32) {
                    jobs.push(Job::Scaled { len, idx, e, f32_ });
                }
            }
        }
        for pattern in 0..EDGE_PATTERNS.len() {
            for n in [16usize, 100, 1000] {
                jobs.push(Job::Edge { pattern, n, f32_ });
            }
        }
        for pattern in 0..PATTERNS.len() {
            for n in [1_000usize, 30_000, 250_000] {
                jobs.push(Job::Long { pattern, n, f32_ });
            }
        }
        let pts = query_points(tier);
        for chunk in pts.chunks(tier.pick(400, 1500)) {
            jobs.push(Job::Stream { f32_, pts: chunk.to_vec() });
        }
    }
    for sample in 0..CHAIN_SAMPLES.len() {
        jobs.push(Job::LevelChain { sample });
    }
    let chain = chain_confs();
    let npat = tier.pick(3, 6);
    // thorough D1 at full length uses the reduced style set beyond length 5 to bound cost
    let long_confs = [(Kind::Two, 0.95), (Kind::Upper, 0.9), (Kind::Lower, 0.25)];
    par_judge(&jobs, |j, s| match j {
        Job::LevelChain { sample } => {
            judge_sample::<f64>(CHAIN_SAMPLES[*sample], &chain, &[Style::Ci], s);
            judge_sample::<f32>(CHAIN_SAMPLES[*sample], &chain, &[Style::Ci], s);
        }
        Job::Long { pattern, n, f32_ } => {
            if *f32_ {
                judge_long_vector::<f32>(*pattern, *n, &long_confs, s)
            } else {
                judge_long_vector::<f64>(*pattern, *n, &long_confs, s)
            }
        }
        Job::Edge { pattern, n, f32_ } => {
            if *f32_ {
                judge_edge::<f32>(*pattern, *n, &confs, s)
            } else {
                judge_edge::<f64>(*pattern, *n, &confs, s)
            }
        }
        Job::Scaled { len, idx, e, f32_ } => {
            let k = 2f64.powi(*e);
            let xs: Vec<f64> = nth_sequence(A_DYADIC.len(), *len, *idx).into_iter().map(|i| A_DYADIC[i] * k).collect();
            // squares must stay finite and normal in the float type
            let ok = xs.iter().all(|x| {
                let a = x.abs();
                a == 0.0 || if *f32_ { a * a < 1e37 && a * a > 1e-30 } else { a * a < 1e300 && a * a > 1e-290 }
            });
            if !ok {
                s.skipped += 1;
            } else if *f32_ {
                judge_sample::<f32>(&xs, &confs, &STYLES_QUICK, s)
            } else {
                judge_sample::<f64>(&xs, &confs, &STYLES_QUICK, s)
            }
        }
        Job::Seq { dyadic, len, idx, f32_ } => {
            let alpha: &[f64] = if *dyadic { &A_DYADIC } else { &A_NONDYADIC };
            let xs: Vec<f64> = nth_sequence(alpha.len(), *len, *idx).into_iter().map(|i| alpha[i]).collect();
            let st: &[Style] = if *len >= 6 { &STYLES_QUICK } else { styles };
            if *f32_ {
                judge_sample::<f32>(&xs, &confs, st, s)
            } else {
                judge_sample::<f64>(&xs, &confs, st, s)
            }
        }
        Job::Stream { f32_, pts } => {
            if *f32_ {
                judge_stream::<f32>(pts, npat, &confs, s)
            } else {
                judge_stream::<f64>(pts, npat, &confs, s)
            }
        }
    })
}

fn replay_case(case: &Value, s: &mut Sink) {
    let kind: Kind = serde_json::from_value(case["kind"].clone()).unwrap_or(Kind::Two);
    let level = case["level"].as_f64().unwrap_or(0.95);
    let f32_ = case["type"] == "f32";
    if case["check"] == "D3" {
        let (pi, n) = (case["pattern"].as_u64().unwrap() as usize, case["n"].as_u64().unwrap() as usize);
        if f32_ {
            judge_long_vector::<f32>(pi, n, &[(kind, level)], s)
        } else {
            judge_long_vector::<f64>(pi, n, &[(kind, level)], s)
        }
        return;
    }
    if case["check"] == "D1e" {
        let (pi, n) = (case["pattern"].as_u64().unwrap() as usize, case["n"].as_u64().unwrap() as usize);
        if f32_ {
            judge_edge::<f32>(pi, n, &[(kind, level)], s)
        } else {
            judge_edge::<f64>(pi, n, &[(kind, level)], s)
        }
        return;
    }
    if case["check"] == "D1" {
        let xs: Vec<f64> = serde_json::from_value(case["xs"].clone()).unwrap();
        // a sample of the level chains: the failure may depend on
        // the calls before it, so the whole chain of that sample is replayed
        if CHAIN_SAMPLES.iter().any(|c| *c == xs.as_slice()) {
            if f32_ {
                judge_sample::<f32>(&xs, &chain_confs(), &[Style::Ci], s)
            } else {
                judge_sample::<f64>(&xs, &chain_confs(), &[Style::Ci], s)
            }
            return;
        }
        if f32_ {
            judge_sample::<f32>(&xs, &[(kind, level)], &STYLES_ALL, s)
        } else {
            judge_sample::<f64>(&xs, &[(kind, level)], &STYLES_ALL, s)
        }
    } else {
        let n = case["n"].as_u64().unwrap() as usize;
        if f32_ {
            judge_stream::<f32>(&[n], PATTERNS.len(), &[(kind, level)], s)
        } else {
            judge_stream::<f64>(&[n], PATTERNS.len(), &[(kind, level)], s)
        }
    }
}

fn main() {
    let (cmd, tier) = mc::parse_args();
    mc::quiet_panics();
    if let Cmd::Replay(p) = cmd {
        std::process::exit(mc::report::replay_main(P, &p, replay_case));
    }
    let mut rep = Report::new(P, tier);
    let st = mc::selftest::run();
    rep.note("oracle_selftest", st.to_json());
    rep.require(st.ok, &format!("oracle self-test failed: {}", st.msg));
    let mut s = run(tier);
    s.sample(json!({"check":"D1","type":"f64","xs":[0.25,1000.0,-3.0],"kind":"Upper","level":0.25,"oracle":"exact mean 332.41666.., exact s^2, t CDF with 2 dof at the implied (signed) critical value = 0.25"}));
    s.sample(json!({"check":"D1","type":"f32","xs":[0.1,0.1,0.1],"kind":"Two","level":0.95,"oracle":"constant sample: [x, x]"}));
    s.sample(json!({"check":"D2","type":"f64","pattern":[1.0,-1.0],"n":100000,"kind":"Two","level":0.99,"oracle":"dof 99999: t CDF (normal accepted within 1% of the switch)"}));
    rep.rule = format!(
        "D1: every sequence of length 2..{} over {:?} (length 2..3 also scaled by 2^e, e in {{-300,-60,-30,40,300}} for f64 and {{-40,-20,20,40}} for f32) and of length 2..{} over {:?} x {} confidences x f64,f32 x call styles {:?}; D2: {} streaming patterns fed one value at a time, queried at {} sample sizes ({}) x confidences x f64,f32, plus the cross-pattern invariance of half-width/se; D3: all six one-shot / chunked entry points on materialised vectors of 1e3, 3e4 and 2.5e5 values of each pattern; distinct by (type, kind, constant?, result bits) and (type, pattern, kind, dof decade)",
        tier.pick(4, 6), A_DYADIC, tier.pick(3, 5), A_NONDYADIC, vcheck::confs(tier).len(), match tier { Tier::Quick => &STYLES_QUICK[..], Tier::Thorough => &STYLES_ALL[..] },
        tier.pick(3, 6), query_points(tier).len(), tier.pick("every n in 2..3000 and 99000..101000, powers of two, 200001", "every n in 2..101000, 131072, 200001")
    );
    rep.assume("tolerance in probability = dof-tier floor (bounded below by statrs' own quantile accuracy; maxima per dof decade are reported) + 0.3*16u*cond(variance) + 0.4*(8u*sum|x|/n + 2u|bound|)/se; cases whose data-dependent part exceeds 0.2*min(p,1-p) are counted as outside the conditioning domain");
    rep.assume("data values outside the alphabets/patterns and levels outside the grid are not covered");
    rep.require(s.distinct() >= 50, "fewer than 50 distinct outcome classes: vacuous");
    std::process::exit(rep.finish(s));
}
