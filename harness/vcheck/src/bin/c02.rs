//! C02 — proportion CI is the Wilson score interval (and Wald variant) of the counts.
//! Exhaustive (n,k) triangle x confidence grid x every front-end, judged against the
//! oracle's own roots of the score equation and the exact score-equation residual.

use mc::exact::{q, qu, to_f64};
use mc::oracle::{norm_ppf, target_prob, wilson_roots};
use mc::{json, par_judge, Cmd, Kind, Report, Sink, Tier, Value};
use num_traits::Signed;
use stats_ci::error::CIError;
use stats_ci::{proportion, Interval};
use vcheck::{conf, err_name};

const P: &str = "C02";

#[derive(Clone, Copy, Debug, PartialEq, Eq, Hash, serde::Serialize, serde::Deserialize)]
enum Fe {
    CiWilson,
    Ci,
    StatsNew,
    Ratio,
    Wald,
}

fn z_of(kind: Kind, level: f64) -> f64 {
    let (p, _) = target_prob(level, kind == Kind::Two);
    if p == 0.5 {
        0.0
    } else {
        norm_ppf(p)
    }
}

fn same(a: &Result<Interval<f64>, CIError>, b: &Result<Interval<f64>, CIError>) -> bool {
    match (a, b) {
        (Ok(x), Ok(y)) => {
            let (kx, lx, hx) = vcheck::shape64(x);
            let (ky, ly, hy) = vcheck::shape64(y);
            kx == ky && lx.to_bits() == ly.to_bits() && hx.to_bits() == hy.to_bits()
        }
        (Err(x), Err(y)) => err_name(x) == err_name(y),
        _ => false,
    }
}

/// judge the default (Wilson) interval for one (n,k,confidence); returns the result
fn judge_wilson(n: usize, k: usize, kind: Kind, level: f64, z: f64, exact: bool, s: &mut Sink) -> Result<Interval<f64>, CIError> {
    s.evals += 1;
    s.calls += 1;
    let c = conf(kind, level);
    let r = proportion::ci_wilson(c, n, k);
    let case = || json!({"fe":Fe::CiWilson,"n":n,"k":k,"kind":kind,"level":level});
    // domain
    let mut allowed: Vec<&str> = vec![];
    if k > n {
        allowed.push("InvalidSuccesses");
    } else {
        if k < 2 {
            allowed.push("TooFewSuccesses");
        }
        if n - k < 2 {
            allowed.push("TooFewFailures");
        }
    }
    match &r {
        Err(e) => {
            s.outcome(&("wilson", err_name(e)));
            if allowed.is_empty() {
                s.violation(format!("wilson/admissible-rejected/{}", err_name(e)), format!("ci_wilson({c:?}, {n}, {k}) = Err({e})"), case());
            } else if !allowed.contains(&err_name(e)) {
                s.violation(format!("wilson/wrong-error/{}", err_name(e)), format!("ci_wilson({c:?}, {n}, {k}) = Err({e}), documented: {allowed:?}"), case());
            } else if let CIError::InvalidSuccesses(a, b) = e {
                if (*a, *b) != (k, n) {
                    s.violation("wilson/InvalidSuccesses-payload", format!("ci_wilson({c:?}, {n}, {k}) = InvalidSuccesses({a},{b})"), case());
                }
            }
        }
        Ok(iv) => {
            if !allowed.is_empty() {
                s.violation(format!("wilson/inadmissible-accepted/{}", allowed[0]), format!("ci_wilson({c:?}, {n}, {k}) = Ok({iv:?}), documented: {allowed:?}"), case());
                return r;
            }
            let (nf, kf) = (n as f64, k as f64);
            let (elo, ehi) = wilson_roots(nf, kf, z);
            let phat = kf / nf;
            // shape: always a two-sided Interval; far end 1 for upper, 0 for lower requests
            let (lo, hi) = match iv {
                Interval::TwoSided(a, b) => (*a, *b),
                other => {
                    s.violation(format!("wilson/shape/{}", kind.name()), format!("ci_wilson({c:?}, {n}, {k}) = {other:?}: expected a [low, high] interval with the natural far end"), case());
                    return r;
                }
            };
            s.outcome(&("wilson", "ok", kind));
            let tol = 1e-12;
            let mut chk = |name: &str, got: f64, exp: f64, s: &mut Sink| {
                let err = (got - exp).abs();
                s.max("wilson_abs_err_vs_roots", err, || format!("n={n} k={k} {} {level}", kind.name()));
                if !(err <= tol) {
                    s.violation(format!("wilson/{name}-not-a-root/{}", kind.name()), format!("ci_wilson({c:?}, {n}, {k}) {name} = {got:?}, score-equation root = {exp:?} (z = {z:?})"), case());
                }
                // residual of the score equation at the returned p (f64; exact below)
                let res = ((got - phat) * (got - phat) - z * z * got * (1.0 - got) / nf).abs();
                if !(res <= 1e-13) {
                    s.violation(format!("wilson/{name}-score-residual/{}", kind.name()), format!("ci_wilson({c:?}, {n}, {k}) {name} = {got:?}: |(p-k/n)^2 - z^2 p(1-p)/n| = {res:e}"), case());
                }
                if exact && got.is_finite() {
                    let pq = q(got);
                    let zq = q(z);
                    let ph = qu(k) / qu(n);
                    let d = &pq - &ph;
                    let resq = (&d * &d - &zq * &zq * &pq * (mc::exact::one() - &pq) / qu(n)).abs();
                    let rq = to_f64(&resq);
                    s.max("wilson_exact_residual", rq, || format!("n={n} k={k} {} {level}", kind.name()));
                    if !(rq <= 1e-13) {
                        s.violation(format!("wilson/{name}-exact-score-residual/{}", kind.name()), format!("exact residual {rq:e} at p = {got:?}"), case());
                    }
                }
                // (one rounding of slack: for populations near 2^53 the upper root is closer to 1
                // than an ulp and mean + span may round to 1 + 2^-52)
                if !(-4e-16..=1.0 + 4e-16).contains(&got) {
                    s.violation(format!("wilson/{name}-outside-unit-interval"), format!("ci_wilson({c:?}, {n}, {k}) {name} = {got:?}"), case());
                }
            };
            match kind {
                Kind::Two => {
                    chk("low", lo, elo, s);
                    chk("high", hi, ehi, s);
                    // (weak: for populations near 2^53 the three values coincide in f64)
                    if !(lo <= phat && phat <= hi) {
                        s.violation("wilson/estimate-not-inside", format!("ci_wilson({c:?}, {n}, {k}) = [{lo}, {hi}] vs k/n = {phat}"), case());
                    }
                }
                Kind::Upper => {
                    chk("low", lo, elo, s);
                    if hi != 1.0 {
                        s.violation("wilson/upper-far-end-not-1", format!("ci_wilson({c:?}, {n}, {k}) = [{lo}, {hi}]"), case());
                    }
                    if level >= 0.5 && !(lo <= phat) {
                        s.violation("wilson/estimate-not-inside", format!("ci_wilson({c:?}, {n}, {k}) = [{lo}, {hi}] vs k/n = {phat}"), case());
                    }
                }
                Kind::Lower => {
                    chk("high", hi, ehi, s);
                    if lo != 0.0 {
                        s.violation("wilson/lower-far-end-not-0", format!("ci_wilson({c:?}, {n}, {k}) = [{lo}, {hi}]"), case());
                    }
                    if level >= 0.5 && !(phat <= hi) {
                        s.violation("wilson/estimate-not-inside", format!("ci_wilson({c:?}, {n}, {k}) = [{lo}, {hi}] vs k/n = {phat}"), case());
                    }
                }
            }
        }
    }
    r
}

fn judge_frontend(fe: Fe, n: usize, k: usize, kind: Kind, level: f64, base: &Result<Interval<f64>, CIError>, s: &mut Sink) {
    let c = conf(kind, level);
    let case = || json!({"fe":fe,"n":n,"k":k,"kind":kind,"level":level});
    s.evals += 1;
    s.calls += 1;
    let r = match fe {
        Fe::Ci => proportion::ci(c, n, k),
        Fe::StatsNew => {
            if k > n {
                return;
            }
            proportion::Stats::new(n, k).ci(c)
        }
        Fe::Ratio => {
            if n == 0 {
                return;
            }
            proportion::ci_wilson_ratio(c, n, k as f64 / n as f64)
        }
        _ => unreachable!(),
    };
    s.outcome(&(format!("{fe:?}"), r.is_ok()));
    if fe == Fe::Ratio && k == 0 {
        // documented: NonPositiveValue for a null rate (TooFewSuccesses equally applies)
        match &r {
            Err(CIError::NonPositiveValue(_)) | Err(CIError::TooFewSuccesses(..)) => {}
            other => s.violation("ratio/zero-rate", format!("ci_wilson_ratio({c:?}, {n}, 0.0) = {other:?}"), case()),
        }
        return;
    }
    if !same(&r, base) {
        s.violation(
            format!("frontend-differs/{fe:?}/{}", match (&r, base) { (Ok(_), Ok(_)) => "different-interval", (Err(_), Err(_)) => "different-error", (Ok(_), Err(_)) => "ok-vs-err", _ => "err-vs-ok" }),
            format!("{fe:?} for n={n}, k={k}, {c:?} = {r:?} but ci_wilson of the implied counts = {base:?}"),
            case(),
        );
    }
}

fn judge_wald(n: usize, k: usize, kind: Kind, level: f64, z: f64, s: &mut Sink) {
    s.evals += 1;
    s.calls += 1;
    let c = conf(kind, level);
    let r = proportion::ci_z_normal(c, n, k);
    let case = || json!({"fe":Fe::Wald,"n":n,"k":k,"kind":kind,"level":level});
    let mut allowed: Vec<&str> = vec![];
    if k > n {
        allowed.push("InvalidSuccesses");
    } else {
        if k < 10 {
            allowed.push("TooFewSuccesses");
        }
        if n - k < 10 {
            allowed.push("TooFewFailures");
        }
    }
    match &r {
        Err(e) => {
            s.outcome(&("wald", err_name(e)));
            if allowed.is_empty() {
                s.violation(
                    format!("wald/admissible-rejected/{}", err_name(e)),
                    format!("ci_z_normal({c:?}, {n}, {k}) = Err({e}) although n*p = {k} >= 10 and n*q = {} >= 10", n - k),
                    case(),
                );
            } else if !allowed.contains(&err_name(e)) {
                s.violation(format!("wald/wrong-error/{}", err_name(e)), format!("ci_z_normal({c:?}, {n}, {k}) = Err({e}), documented: {allowed:?}"), case());
            }
        }
        Ok(iv) => {
            s.outcome(&("wald", "ok", kind));
            if !allowed.is_empty() {
                s.violation(format!("wald/inadmissible-accepted/{}", allowed[0]), format!("ci_z_normal({c:?}, {n}, {k}) = Ok({iv:?}), documented: {allowed:?}"), case());
                return;
            }
            let (nf, kf) = (n as f64, k as f64);
            let p = kf / nf;
            let span = z * (p * (1.0 - p) / nf).sqrt();
            let (lo, hi) = match iv {
                Interval::TwoSided(a, b) => (*a, *b),
                other => {
                    s.violation(format!("wald/shape/{}", kind.name()), format!("ci_z_normal({c:?}, {n}, {k}) = {other:?}"), case());
                    return;
                }
            };
            let tol = 1e-13;
            let bad_lo = kind != Kind::Lower && !((lo - (p - span)).abs() <= tol);
            let bad_hi = kind != Kind::Upper && !((hi - (p + span)).abs() <= tol);
            if bad_lo || bad_hi {
                s.violation(format!("wald/value/{}", kind.name()), format!("ci_z_normal({c:?}, {n}, {k}) = [{lo}, {hi}], expected k/n -/+ z*sqrt(pq/n) = [{}, {}]", p - span, p + span), case());
            }
            if (kind == Kind::Upper && hi != 1.0) || (kind == Kind::Lower && lo != 0.0) {
                s.violation("wald/far-end", format!("ci_z_normal({c:?}, {n}, {k}) = [{lo}, {hi}]"), case());
            }
        }
    }
}

/// all front-ends over boolean / predicate data for one boolean sequence
fn judge_bools(bits: &[bool], kind: Kind, level: f64, s: &mut Sink) {
    let n = bits.len();
    let k = bits.iter().filter(|b| **b).count();
    let c = conf(kind, level);
    let base = proportion::ci_wilson(c, n, k);
    let case = |fe: &str| json!({"fe":fe,"bits":bits.iter().map(|b| *b as u8).collect::<Vec<_>>(),"kind":kind,"level":level});
    s.evals += 1;
    let v: Vec<bool> = bits.to_vec();
    let ints: Vec<i32> = bits.iter().enumerate().map(|(i, b)| if *b { 100 + i as i32 } else { -(i as i32) - 1 }).collect();
    let mut results: Vec<(&str, Result<Interval<f64>, CIError>, (usize, usize))> = vec![];
    results.push(("ci_true", proportion::ci_true(c, &v), (n, k)));
    results.push(("ci_if", proportion::ci_if(c, &ints, |x| *x >= 100), (n, k)));
    let st = <proportion::Stats as FromIterator<bool>>::from_iter(v.iter().copied());
    results.push(("Stats::from_iter", st.ci(c), (st.population(), st.successes())));
    let mut st2 = proportion::Stats::default();
    st2.extend(&v);
    results.push(("Stats::extend", st2.ci(c), (st2.population(), st2.successes())));
    let mut st3 = proportion::Stats::default();
    st3.extend_if(&ints, |x| *x >= 100);
    results.push(("Stats::extend_if", st3.ci(c), (st3.population(), st3.successes())));
    let mut st4 = proportion::Stats::default();
    for b in bits {
        if *b {
            st4.add_success()
        } else {
            st4.add_failure()
        }
    }
    results.push(("add_success/add_failure", st4.ci(c), (st4.population(), st4.successes())));
    // two chunks
    let mut st5 = proportion::Stats::default();
    let (a, b) = v.split_at(n / 2);
    st5.extend(&a.to_vec());
    st5.extend(&b.to_vec());
    results.push(("Stats::extend x2", st5.ci(c), (st5.population(), st5.successes())));
    // the predicate front-end on a non-empty state (two batches; after add_*; after +=)
    let mut st7 = proportion::Stats::default();
    let (ia, ib) = ints.split_at(n / 2);
    st7.extend_if(&ia.to_vec(), |x| *x >= 100);
    st7.extend_if(&ib.to_vec(), |x| *x >= 100);
    results.push(("Stats::extend_if x2", st7.ci(c), (st7.population(), st7.successes())));
    let mut st8 = proportion::Stats::default();
    if n >= 1 {
        if bits[0] { st8.add_success() } else { st8.add_failure() }
        st8.extend_if(&ints[1..].to_vec(), |x| *x >= 100);
        results.push(("add_* then extend_if", st8.ci(c), (st8.population(), st8.successes())));
    }
    s.calls += results.len() as u64 + 1;
    for (name, r, counts) in &results {
        if *counts != (n, k) {
            s.violation(format!("bool-frontend-miscount/{name}"), format!("{name} counted (population, successes) = {counts:?}, data has ({n}, {k})"), case(name));
        }
        if !same(r, &base) {
            s.violation(format!("bool-frontend-differs/{name}"), format!("{name} = {r:?} but ci_wilson({n},{k}) = {base:?}"), case(name));
        }
    }
    // the negated predicate must count the complement
    let mut st6 = proportion::Stats::default();
    st6.extend_if(&ints, |x| *x < 100);
    s.calls += 1;
    if (st6.population(), st6.successes()) != (n, n - k) {
        s.violation("bool-frontend-miscount/negated-predicate", format!("extend_if(negated) counted ({}, {}), expected ({n}, {})", st6.population(), st6.successes(), n - k), case("extend_if-negated"));
    }
    s.outcome(&("bools", base.is_ok()));
}

struct Job {
    n: usize,
    kind: Kind,
    level: f64,
    z: f64,
}

fn run(tier: Tier) -> Sink {
    let nmax = tier.pick(1200, 10000);
    let nfe = tier.pick(400, 1500);
    let nexact = tier.pick(60, 200);
    let mut jobs = vec![];
    for (kind, level) in vcheck::confs(tier) {
        let z = z_of(kind, level);
        for n in 0..=nmax {
            jobs.push(Job { n, kind, level, z });
        }
    }
    let mut s = par_judge(&jobs, |j, s| {
        for k in 0..=j.n + 1 {
            let base = judge_wilson(j.n, k, j.kind, j.level, j.z, j.n <= nexact, s);
            if j.n <= nfe {
                for fe in [Fe::Ci, Fe::StatsNew, Fe::Ratio] {
                    judge_frontend(fe, j.n, k, j.kind, j.level, &base, s);
                }
            }
            judge_wald(j.n, k, j.kind, j.level, j.z, s);
        }
    });
    // a few large populations with a sparse set of counts (the formula has no n-dependent
    // branch today; a future one would show here)
    let mut big = vec![];
    for (kind, level) in vcheck::confs(tier) {
        for n in [5_000usize, 10_000, 65_537, 100_000, 1_000_000, 123_456_789, (1 << 32) - 1, 1 << 32, (1 << 32) + 1, 6_000_000_000, 1 << 53] {
            big.push((n, kind, level, z_of(kind, level)));
        }
    }
    let sbig = par_judge(&big, |&(n, kind, level, z), s| {
        for k in [0, 1, 2, 9, 10, 11, n / 1000, n / 100, n / 10, n / 3, n / 2, n - n / 10, n - 11, n - 10, n - 9, n - 2, n - 1, n, n + 1] {
            // (integer arithmetic on the counts could overflow here: a panic is a violation,
            // not a crash of the checker)
            let mut local = Sink::new();
            let r = mc::catch(std::panic::AssertUnwindSafe(|| {
                let base = judge_wilson(n, k, kind, level, z, false, &mut local);
                judge_frontend(Fe::Ci, n, k, kind, level, &base, &mut local);
                judge_wald(n, k, kind, level, z, &mut local);
            }));
            let l = std::mem::take(s);
            *s = l.merge(local);
            if let Err(m) = r {
                s.violation("wilson/panic-on-large-counts", format!("proportion interval for n={n}, k={k}, {} {level} panicked: {m}", kind.name()), json!({"fe":Fe::CiWilson,"n":n,"k":k,"kind":kind,"level":level}));
            }
        }
    });
    s = s.merge(sbig);
    // close neighbours of every level, asked one after the other on one thread: each answer
    // must be the interval of *its* level (a result carried over from the previous call,
    // e.g. a memo matched with a tolerance, is off by far more than the 1e-12 allowed)
    for (kind, level) in vcheck::confs(tier) {
        let near = [level, level * (1.0 + 1e-9), level - 3e-8, level as f32 as f64, level * (1.0 - 1e-9), level + 3e-8, level];
        for (n, k) in [(50usize, 20usize), (400, 200), (1000, 12), (3000, 2988)] {
            for &l in near.iter().filter(|l| **l > 0.0 && **l < 1.0) {
                let z = z_of(kind, l);
                judge_wilson(n, k, kind, l, z, false, &mut s);
                judge_wald(n, k, kind, l, z, &mut s);
            }
        }
    }
    // boolean front-ends: every boolean sequence up to length 12 (quick 10), three
    // canonical arrangements up to 60
    let lmax = tier.pick(10, 12);
    let confs: Vec<(Kind, f64)> = vec![(Kind::Two, 0.95), (Kind::Upper, 0.9), (Kind::Lower, 0.25)];
    let mut seqs: Vec<Vec<bool>> = vec![];
    for len in 0..=lmax {
        for m in 0..(1u32 << len) {
            seqs.push((0..len).map(|i| m >> i & 1 == 1).collect());
        }
    }
    for n in (lmax + 1)..=60 {
        for k in [0, 1, 2, n / 3, n / 2, n - 2, n - 1, n] {
            seqs.push((0..n).map(|i| i < k).collect());
            seqs.push((0..n).map(|i| i >= n - k).collect());
            seqs.push((0..n).map(|i| (i * k) / n != ((i + 1) * k) / n).collect());
        }
    }
    let sb = par_judge(&seqs, |bits, s| {
        for &(kind, level) in &confs {
            judge_bools(bits, kind, level, s);
        }
    });
    s = s.merge(sb);
    s
}

fn replay_case(case: &Value, s: &mut Sink) {
    let kind: Kind = serde_json::from_value(case["kind"].clone()).unwrap();
    let level = case["level"].as_f64().unwrap();
    let z = z_of(kind, level);
    if let Some(bits) = case.get("bits") {
        let b: Vec<bool> = bits.as_array().unwrap().iter().map(|x| x.as_u64().unwrap() == 1).collect();
        judge_bools(&b, kind, level, s);
        return;
    }
    let n = case["n"].as_u64().unwrap() as usize;
    let k = case["k"].as_u64().unwrap() as usize;
    let fe: Fe = serde_json::from_value(case["fe"].clone()).unwrap();
    let base = judge_wilson(n, k, kind, level, z, n <= 200, s);
    match fe {
        Fe::CiWilson => {}
        Fe::Wald => judge_wald(n, k, kind, level, z, s),
        fe => judge_frontend(fe, n, k, kind, level, &base, s),
    }
}

fn main() {
    let (cmd, tier) = mc::parse_args();
    mc::quiet_panics();
    if let Cmd::Replay(p) = cmd {
        std::process::exit(mc::report::replay_main(P, &p, replay_case));
    }
    let mut rep = Report::new(P, tier);
    let st = mc::selftest::run();
    rep.note("oracle_selftest", st.to_json());
    rep.require(st.ok, &format!("oracle self-test failed: {}", st.msg));
    let mut s = run(tier);
    s.sample(json!({"fe":"CiWilson","n":28,"k":18,"kind":"Two","level":0.95,"oracle":"roots of (n+z^2)p^2-(2k+z^2)p+k^2/n, f64 and exact-rational residual"}));
    s.sample(json!({"fe":"Wald","n":28,"k":18,"kind":"Upper","level":0.9,"expect":"Ok: k=18>=10 and n-k=10>=10"}));
    s.sample(json!({"fe":"Ratio","n":22,"k":15,"rate":"15/22","expect":"bit-identical to ci_wilson(22,15)"}));
    s.sample(json!({"fe":"ci_if","bits":[1,0,1,1,0,1,0,1],"expect":"interval of (8,5); negated predicate counts (8,3)"}));
    rep.rule = format!(
        "every (n,k) with 0<=n<={}, 0<=k<=n+1 (plus 19 counts for each n in {{5e3,1e4,65537,1e5,1e6,123456789,2^32-1,2^32,2^32+1,6e9,2^53}}) x {} confidences (levels x 3 kinds) through ci_wilson and ci_z_normal; 6 close neighbours of every level (relative 1e-9, absolute 3e-8, f32 rounding) in one sequential call chain on 4 count pairs; ci, Stats::new().ci and ci_wilson_ratio(n,k/n) for n<={}; exact-rational score residual for n<={}; every boolean sequence of length <={} and 3 arrangements x 8 counts for lengths up to 60 through ci_true, ci_if, Stats::from_iter/extend/extend_if/add_*; distinct by (front-end, outcome variant, kind)",
        tier.pick(1200, 10000),
        vcheck::confs(tier).len(),
        tier.pick(400, 1500),
        tier.pick(60, 200),
        tier.pick(10, 12)
    );
    // merge the evidence of the serde half (checks/c02.sh runs it first)
    match std::fs::read_to_string(mc::report::verif_root().join("evidence").join("C02.serde.json")).ok().and_then(|t| serde_json::from_str::<Value>(&t).ok()) {
        Some(v) => rep.note("deserialized_stats", v),
        None => rep.note("deserialized_stats", json!("not run in this invocation (./run.sh C02 runs it; see checks/c02.sh)")),
    }
    rep.assume("z* is the oracle's own normal quantile (libm erfc + Newton), self-tested against mpmath tables");
    rep.assume("n beyond the bound is not enumerated: the formula has no n-dependent branch and usize->f64 is exact below 2^53");
    rep.require(s.distinct() >= 12, "fewer than 12 distinct outcome classes: vacuous");
    std::process::exit(rep.finish(s));
}
