//! C03 — quantile CI is the order statistics at the Wilson ranks, whatever the data order.
//! (ranks) every n up to a bound x dense q grid x all confidences vs an independent
//! Wilson-rank oracle; (elements) all permutations of small samples with ties and a
//! structured family of large ones, several element types, all entry points.

use mc::exact::{q as rq, qu};
use mc::explore::permutations;
use mc::oracle::{norm_ppf, target_prob, wilson_roots};
use mc::{json, par_judge, Cmd, Kind, Report, Sink, Tier, Value};
use num_traits::{One, Signed, ToPrimitive};
use stats_ci::error::CIError;
use stats_ci::{quantile, Interval};
use std::fmt::Debug;
use std::panic::AssertUnwindSafe;
use vcheck::{conf, err_name};

const P: &str = "C03";

fn z_of(kind: Kind, level: f64) -> f64 {
    let p = target_prob(level, kind == Kind::Two).0;
    if p == 0.5 {
        0.0
    } else {
        norm_ppf(p)
    }
}

/// acceptable success counts k = round-half-away(q*n), decided on the exact rational
/// value of the double q; both neighbours when q*n is within 2^-50 (relative) of a tie.
fn k_options(n: usize, qv: f64) -> Vec<usize> {
    let x = rq(qv) * qu(n);
    let half = mc::exact::one() / qu(2);
    let fl = (&x + &half).floor();
    let k = fl.to_integer().to_usize().unwrap_or(0);
    // distance of x to the tie point (k - 1/2) or (k + 1/2)
    let band = &x * rq(2f64.powi(-50));
    let mut v = vec![k];
    let lower_tie = &fl - &half; // x >= lower_tie
    if (&x - &lower_tie).abs() <= band && k > 0 {
        v.push(k - 1);
    }
    let upper_tie = &fl + &half;
    if (&upper_tie - &x).abs() <= band {
        v.push(k + 1);
    }
    v
}

fn rank_options(p: f64, n: usize) -> Vec<usize> {
    let x = p * n as f64;
    let f = x.floor();
    let mut v = vec![(f as usize).min(n - 1)];
    if (x - x.round()).abs() < 1e-9 {
        let r = x.round();
        for c in [r - 1.0, r] {
            if c >= 0.0 {
                let c = (c as usize).min(n - 1);
                if !v.contains(&c) {
                    v.push(c);
                }
            }
        }
    }
    v
}

const REJECTIONS: [&str; 4] = ["TooFewSamples", "InvalidQuantile", "TooFewSuccesses", "TooFewFailures"];

struct ZTab {
    confs: Vec<(Kind, f64, f64)>,
}

fn judge_ranks(n: usize, qv: f64, zt: &ZTab, s: &mut Sink) {
    let q_ok = qv > 0.0 && qv < 1.0;
    let kopts = if q_ok { k_options(n, qv) } else { vec![] };
    // admissible iff every acceptable k is admissible; inadmissible iff none is
    let adm: Vec<bool> = kopts.iter().map(|&k| n >= 4 && k >= 2 && k <= n && n - k >= 2).collect();
    let all_adm = q_ok && !adm.is_empty() && adm.iter().all(|a| *a);
    let none_adm = !q_ok || adm.iter().all(|a| !*a);
    for &(kind, level, z) in &zt.confs {
        s.evals += 1;
        s.calls += 2;
        let c = conf(kind, level);
        let r = quantile::ci_indices(c, n, qv);
        let r2 = quantile::Stats::new(n).ci(c, qv);
        let case = || json!({"check":"ranks","n":n,"q_bits":qv.to_bits(),"q":qv,"kind":kind,"level":level});
        let same = match (&r, &r2) {
            (Ok(a), Ok(b)) => a == b,
            (Err(a), Err(b)) => err_name(a) == err_name(b),
            _ => false,
        };
        if !same {
            s.violation("ranks/ci_indices-vs-Stats-differ", format!("ci_indices({c:?}, {n}, {qv}) = {r:?} but Stats::new({n}).ci = {r2:?}"), case());
        }
        match &r {
            Err(e) => {
                s.outcome(&("ranks", err_name(e)));
                if all_adm {
                    s.violation(format!("ranks/admissible-rejected/{}", err_name(e)), format!("ci_indices({c:?}, {n}, {qv}) = Err({e}) (k options {kopts:?})"), case());
                } else if !REJECTIONS.contains(&err_name(e)) {
                    s.violation(format!("ranks/undocumented-rejection/{}", err_name(e)), format!("ci_indices({c:?}, {n}, {qv}) = Err({e})"), case());
                }
            }
            Ok(iv) => {
                s.outcome(&("ranks", "ok", kind));
                if none_adm {
                    s.violation(
                        format!("ranks/inadmissible-accepted/{}", if !q_ok { "quantile-outside-(0,1)" } else if n < 4 { "n<4" } else { "too-few-successes-or-failures" }),
                        format!("ci_indices({c:?}, {n}, {qv}) = Ok({iv:?})"),
                        case(),
                    );
                    continue;
                }
                let (lo, hi) = match (kind, iv) {
                    (Kind::Two, Interval::TwoSided(a, b)) => (Some(*a), Some(*b)),
                    (Kind::Upper, Interval::UpperOneSided(a)) => (Some(*a), None),
                    (Kind::Lower, Interval::LowerOneSided(b)) => (None, Some(*b)),
                    _ => {
                        s.violation(format!("ranks/wrong-kind/{}", kind.name()), format!("ci_indices({c:?}, {n}, {qv}) = {iv:?}"), case());
                        continue;
                    }
                };
                // in range, ordered
                if lo.map(|l| l >= n).unwrap_or(false) || hi.map(|h| h >= n).unwrap_or(false) {
                    s.violation("ranks/out-of-range", format!("ci_indices({c:?}, {n}, {qv}) = {iv:?}"), case());
                }
                if let (Some(l), Some(h)) = (lo, hi) {
                    if l > h {
                        s.violation("ranks/inverted", format!("ci_indices({c:?}, {n}, {qv}) = {iv:?}"), case());
                    }
                }
                // equals the Wilson ranks of some acceptable k
                let mut matched = false;
                let mut bracket_ok = false;
                let mut want = vec![];
                for (&k, &a) in kopts.iter().zip(&adm) {
                    if !a {
                        continue;
                    }
                    let (plo, phi) = wilson_roots(n as f64, k as f64, z);
                    let lo_opts = rank_options(plo, n);
                    let hi_opts = rank_options(phi, n);
                    want.push((k, lo_opts.clone(), hi_opts.clone()));
                    let ok_lo = lo.map(|l| lo_opts.contains(&l)).unwrap_or(true);
                    let ok_hi = hi.map(|h| hi_opts.contains(&h)).unwrap_or(true);
                    if ok_lo && ok_hi {
                        matched = true;
                    }
                    // brackets the sample-quantile rank to within one position
                    if kind == Kind::Two || level >= 0.5 {
                        let b_lo = lo.map(|l| l <= k + 1).unwrap_or(true);
                        let b_hi = hi.map(|h| h + 1 >= k).unwrap_or(true);
                        if b_lo && b_hi {
                            bracket_ok = true;
                        }
                    } else {
                        bracket_ok = true;
                    }
                }
                if !matched {
                    s.violation(
                        format!("ranks/not-the-wilson-ranks/{}", kind.name()),
                        format!("ci_indices({c:?}, {n}, {qv}) = {iv:?}; oracle (k, low ranks, high ranks) = {want:?}"),
                        case(),
                    );
                }
                if !bracket_ok {
                    s.violation(format!("ranks/does-not-bracket-sample-quantile/{}", kind.name()), format!("ci_indices({c:?}, {n}, {qv}) = {iv:?}, k options {kopts:?}"), case());
                }
            }
        }
    }
}

fn q_grid(n: usize) -> Vec<f64> {
    let mut v: Vec<f64> = (0..=64).map(|j| j as f64 / 64.0).collect();
    for m in 0..n {
        v.push((m as f64 + 0.5) / n as f64);
        v.push(m as f64 / n as f64);
    }
    // quantiles whose product with n lies a definite distance below / above a rounding tie
    // (round(q n) must not move for them)
    for m in (2..n.saturating_sub(2)).step_by(if n <= 120 { 1 } else { (n / 40).max(1) }) {
        for d in [1e-12, 3e-10, 8e-10, 1e-7, 1e-3] {
            v.push((m as f64 + 0.5 - d) / n as f64);
            v.push((m as f64 + 0.5 + d) / n as f64);
        }
    }
    v.extend([-0.1, 0.0, -0.0, 1.0, 1.1, f64::NAN, 1.0 - 2f64.powi(-53), 5e-324, f64::INFINITY, f64::NEG_INFINITY]);
    v
}

// ---------------- elements ----------------------------------------------------------

trait Elem: PartialOrd + Copy + Debug + Send + Sync + 'static {}
impl<T: PartialOrd + Copy + Debug + Send + Sync + 'static> Elem for T {}

fn max_size<T: Elem>(c: stats_ci::Confidence, data: &Vec<T>, q: f64, cap: usize) -> Option<Result<stats_ci::CIResult<Interval<T>>, String>> {
    macro_rules! caps {
        ($($c:literal),*) => {
            match cap {
                $( $c => Some(mc::catch(AssertUnwindSafe(|| quantile::ci_max_size::<T, Vec<T>, $c>(c, data, q)))), )*
                _ => None,
            }
        };
    }
    caps!(3, 4, 5, 6, 7, 8, 9, 14, 15, 16, 63, 64, 65, 256, 257, 258, 1023, 1024, 1025, 1026)
}

fn eq_res<T: Elem>(a: &stats_ci::CIResult<Interval<T>>, b: &stats_ci::CIResult<Interval<T>>) -> bool {
    match (a, b) {
        (Ok(x), Ok(y)) => x == y,
        (Err(x), Err(y)) => err_name(x) == err_name(y),
        _ => false,
    }
}

fn show<T: Debug>(d: &[T]) -> String {
    if d.len() <= 40 {
        format!("{d:?}")
    } else {
        format!("[{:?}, {:?}, {:?}, {:?}, ... {} elements]", d[0], d[1], d[2], d[3], d.len())
    }
}

/// One multiset (given sorted) in one input order: all entry points must return the
/// order statistics at the ranks of ci_indices.
fn judge_elements<T: Elem>(ty: &str, sorted: &[T], order: &[usize], confs: &[(Kind, f64)], qs: &[f64], s: &mut Sink) {
    let n = sorted.len();
    let data: Vec<T> = order.iter().map(|&i| sorted[i]).collect();
    for &(kind, level) in confs {
        for &qv in qs {
            s.evals += 1;
            let c = conf(kind, level);
            let case = || json!({"check":"elements","type":ty,"n":n,"order":if n <= 12 { json!(order) } else { json!(format!("structured order starting {:?}", &order[..6])) },"q":qv,"kind":kind,"level":level});
            let idx = quantile::ci_indices(c, n, qv);
            let expect: stats_ci::CIResult<Interval<T>> = match &idx {
                Ok(Interval::TwoSided(a, b)) => Ok(Interval::TwoSided(sorted[*a], sorted[*b])),
                Ok(Interval::UpperOneSided(a)) => Ok(Interval::UpperOneSided(sorted[*a])),
                Ok(Interval::LowerOneSided(b)) => Ok(Interval::LowerOneSided(sorted[*b])),
                Err(e) => Err(CIError::Error(err_name(e).to_string())),
            };
            let same_as_expect = |r: &stats_ci::CIResult<Interval<T>>| match (r, &expect, &idx) {
                (Ok(x), Ok(y), _) => x == y,
                (Err(x), Err(_), Err(e)) => err_name(x) == err_name(e),
                _ => false,
            };
            s.calls += 3;
            let r_ci = mc::catch(AssertUnwindSafe(|| quantile::ci(c, &data, qv)));
            let r_sorted = mc::catch(AssertUnwindSafe(|| quantile::ci_sorted_unchecked(c, sorted, qv)));
            // the same data in containers whose iterator gives no size hint (0, None), or an
            // upper bound only: the iterator protocol allows both, and n is the number of
            // elements, not a hint
            let r_nohint = mc::catch(AssertUnwindSafe(|| quantile::ci(c, &Hintless(data.clone(), false), qv)));
            let r_upper = mc::catch(AssertUnwindSafe(|| quantile::ci(c, &Hintless(data.clone(), true), qv)));
            s.calls += 2;
            s.outcome(&("elements", ty, kind, idx.is_ok()));
            for (name, r) in [("ci", &r_ci), ("ci_sorted_unchecked", &r_sorted), ("ci(no size hint)", &r_nohint), ("ci(upper size hint only)", &r_upper)] {
                match r {
                    Ok(r) => {
                        if !same_as_expect(r) {
                            s.violation(format!("elements/{name}-not-the-order-statistics/{}", kind.name()), format!("{name}({c:?}, {}, {qv}) = {r:?}; ranks {idx:?} of the sorted sample give {expect:?}", show(&data)), case());
                        }
                    }
                    Err(m) => s.violation(format!("elements/{name}-panicked"), format!("{name}({c:?}, .., {qv}) panicked: {m}"), case()),
                }
            }
            for cap in [n, n + 1, 1024] {
                if cap < n {
                    continue;
                }
                if let Some(r) = max_size(c, &data, qv, cap) {
                    s.calls += 1;
                    match r {
                        Ok(r) => {
                            if !same_as_expect(&r) {
                                s.violation(format!("elements/ci_max_size-not-the-order-statistics/{}", kind.name()), format!("ci_max_size::<CAP={cap}>({c:?}, {}, {qv}) = {r:?}; expected {expect:?}", show(&data)), case());
                            }
                        }
                        Err(m) => s.violation("elements/ci_max_size-panicked-within-capacity", format!("CAP={cap} n={n}: {m}"), case()),
                    }
                }
            }
            // capacity too small: documented panic (never a silently truncated sample)
            if let Some(r) = max_size(c, &data, qv, n.wrapping_sub(1)) {
                s.calls += 1;
                match r {
                    Err(_) => s.count("documented-capacity-panics", 1),
                    // (an error instead of the panic would also report the overflow)
                    Ok(Err(_)) => s.count("documented-capacity-panics", 1),
                    Ok(r) => s.violation("elements/ci_max_size-capacity-overflow-not-reported", format!("ci_max_size::<CAP={}>(n={n}) = {r:?} instead of the documented panic", n - 1), case()),
                }
            }
            let _ = eq_res::<T>;
        }
    }
}

/// a container whose `&`-iterator reports `(0, None)` (like `flatten`) or `(0, Some(n))`
/// (like `filter`) as its size hint
struct Hintless<T>(Vec<T>, bool);
struct HintlessIter<'a, T>(std::slice::Iter<'a, T>, bool);
impl<'a, T> Iterator for HintlessIter<'a, T> {
    type Item = &'a T;
    fn next(&mut self) -> Option<&'a T> {
        self.0.next()
    }
    fn size_hint(&self) -> (usize, Option<usize>) {
        (0, if self.1 { Some(self.0.len()) } else { None })
    }
}
impl<'a, T> IntoIterator for &'a Hintless<T> {
    type Item = &'a T;
    type IntoIter = HintlessIter<'a, T>;
    fn into_iter(self) -> HintlessIter<'a, T> {
        HintlessIter(self.0.iter(), self.1)
    }
}

fn structured_orders(n: usize) -> Vec<Vec<usize>> {
    let id: Vec<usize> = (0..n).collect();
    let mut v = vec![id.clone(), id.iter().rev().cloned().collect()];
    for r in [1, 2, n / 3, n / 2, n - 1] {
        let mut o = id.clone();
        o.rotate_left(r % n);
        v.push(o);
    }
    let mut inter: Vec<usize> = (0..n).step_by(2).collect();
    inter.extend((1..n).step_by(2));
    v.push(inter.clone());
    inter.reverse();
    v.push(inter);
    // a fixed multiplicative scramble (a permutation when gcd(m, n) = 1)
    for m in [7usize, 13, 101] {
        if gcd(m, n) == 1 {
            v.push((0..n).map(|i| (i * m) % n).collect());
        }
    }
    v
}

fn gcd(a: usize, b: usize) -> usize {
    if b == 0 {
        a
    } else {
        gcd(b, a % b)
    }
}

/// multisets of size n as sorted index->value maps with ties
fn multisets(n: usize) -> Vec<Vec<usize>> {
    let distinct: Vec<usize> = (0..n).collect();
    let mut one_tie: Vec<usize> = (0..n).collect();
    one_tie[1] = one_tie[0];
    let mut mid_tie: Vec<usize> = (0..n).collect();
    let m = n / 2;
    mid_tie[m] = mid_tie[m - 1];
    let all_equal = vec![3usize; n];
    let two_vals: Vec<usize> = (0..n).map(|i| if i < n / 2 { 1 } else { 5 }).collect();
    vec![distinct, one_tie, mid_tie, all_equal, two_vals]
}

fn run_elements_for<T: Elem>(ty: &'static str, value_of: &(dyn Fn(usize) -> T + Sync), tier: Tier, s: &mut Sink) {
    let confs = [(Kind::Two, 0.95), (Kind::Two, 0.5), (Kind::Upper, 0.9), (Kind::Lower, 0.975), (Kind::Upper, 0.25), (Kind::Two, 0.9999)];
    // valid quantiles and inadmissible ones (which must be *rejected*, not panic)
    let qs = [0.5, 0.25, 0.9, 0.0, 1.0, f64::NAN, -0.5];
    let nperm = tier.pick(6, 8);
    let mut jobs: Vec<(Vec<T>, Vec<usize>)> = vec![];
    for n in 0..4usize {
        // too few samples: every entry point must reject
        jobs.push(((0..n).map(|i| value_of(i)).collect(), (0..n).collect()));
    }
    for n in 4..=nperm {
        for ms in multisets(n) {
            let sorted: Vec<T> = ms.iter().map(|&i| value_of(i)).collect();
            for p in permutations(n) {
                jobs.push((sorted.clone(), p));
            }
        }
    }
    if nperm < 7 {
        // n = 7: distinct and one-tie multisets only in the quick tier
        for ms in multisets(7).into_iter().take(2) {
            let sorted: Vec<T> = ms.iter().map(|&i| value_of(i)).collect();
            for p in permutations(7) {
                jobs.push((sorted.clone(), p));
            }
        }
    }
    for n in [15usize, 64, 257, 1024, 1025] {
        let sorted: Vec<T> = (0..n).map(|i| value_of(i / 2 * 2 + (i % 7 == 0) as usize)).collect();
        let mut sorted = sorted;
        sorted.sort_by(|a, b| a.partial_cmp(b).unwrap());
        for o in structured_orders(n) {
            jobs.push((sorted.clone(), o));
        }
    }
    let r = par_judge(&jobs, |(sorted, order), s| judge_elements(ty, sorted, order, &confs, &qs, s));
    let l = std::mem::take(s);
    *s = l.merge(r);
    // large samples (beyond 2^16 elements; thorough: also beyond 2^20): three unsorted orders,
    // fewer confidences and quantiles
    let big_confs = [(Kind::Two, 0.95), (Kind::Upper, 0.9), (Kind::Lower, 0.975)];
    let big_qs = [0.1, 0.5];
    let mut big: Vec<(Vec<T>, Vec<usize>)> = vec![];
    for n in tier.pick(vec![65_537usize, 70_001], vec![65_537, 70_001, 300_007, 1_048_577]) {
        let mut sorted: Vec<T> = (0..n).map(|i| value_of(i / 2 * 2 + (i % 7 == 0) as usize)).collect();
        sorted.sort_by(|a, b| a.partial_cmp(b).unwrap());
        let id: Vec<usize> = (0..n).collect();
        let mut rot = id.clone();
        rot.rotate_left(n / 3);
        let mut inter: Vec<usize> = (0..n).step_by(2).collect();
        inter.extend((1..n).step_by(2));
        inter.reverse();
        let scr: Vec<usize> = (0..n).map(|i| (i * 7) % n).collect();
        for o in [rot, inter, scr] {
            big.push((sorted.clone(), o));
        }
    }
    let r = par_judge(&big, |(sorted, order), s| judge_elements(ty, sorted, order, &big_confs, &big_qs, s));
    let l = std::mem::take(s);
    *s = l.merge(r);
}

fn f64_value(i: usize) -> f64 {
    // includes -inf, both zeros (equal), subnormal, +inf as legitimate comparable elements
    const V: [f64; 12] = [f64::NEG_INFINITY, -2.5, -0.0, 0.0, 5e-324, 1.0, 1.5, 2.0, 1e300, f64::INFINITY, f64::INFINITY, f64::INFINITY];
    if i < V.len() {
        V[i]
    } else {
        i as f64 * 0.5
    }
}

fn run(tier: Tier) -> Sink {
    let nmax = tier.pick(500, 5000);
    let zt = ZTab { confs: vcheck::confs(tier).into_iter().map(|(k, l)| (k, l, z_of(k, l))).collect() };
    let ns: Vec<usize> = (0..=nmax).rev().collect();
    let mut s = par_judge(&ns, |&n, s| {
        for qv in q_grid(n) {
            judge_ranks(n, qv, &zt, s);
        }
    });
    // a few huge n (usize -> f64 exact below 2^53)
    for n in [100_000usize, 1_000_003, 1 << 40] {
        for qv in [0.5, 1e-5, 0.999, 0.1] {
            judge_ranks(n, qv, &zt, &mut s);
        }
    }
    run_elements_for::<i32>("i32", &|i| i as i32 * 3 - 7, tier, &mut s);
    run_elements_for::<u8>("u8", &|i| (i % 250) as u8, tier, &mut s);
    run_elements_for::<f64>("f64", &f64_value, tier, &mut s);
    run_elements_for::<char>("char", &|i| char::from_u32(0x41 + (i as u32 % 5000) * 3).unwrap(), tier, &mut s);
    static STRS: [&str; 16] = ["", "A", "AA", "B", "a", "ab", "b", "c", "d", "e", "f", "g", "h", "zz", "\u{e9}", "\u{4e2d}"];
    run_elements_for::<&'static str>("&str", &|i| STRS[i % 16], tier, &mut s);
    // element types wider than two machine words (moved by memcpy, not in registers)
    run_elements_for::<[u64; 4]>("[u64;4]", &|i| [i as u64 / 4, 7, i as u64 % 4, u64::MAX - 70_000_000 + i as u64], tier, &mut s);
    run_elements_for::<(i64, i64, i64)>("(i64,i64,i64)", &|i| (-3, i as i64 / 2 - 9, i as i64 - 5), tier, &mut s);
    s
}

fn replay_case(case: &Value, s: &mut Sink) {
    let kind: Kind = serde_json::from_value(case["kind"].clone()).unwrap();
    let level = case["level"].as_f64().unwrap();
    if case["check"] == "ranks" {
        let zt = ZTab { confs: vec![(kind, level, z_of(kind, level))] };
        judge_ranks(case["n"].as_u64().unwrap() as usize, f64::from_bits(case["q_bits"].as_u64().unwrap()), &zt, s);
    } else {
        // element cases are re-run as a family (seconds)
        let mut r = Sink::new();
        run_elements_for::<i32>("i32", &|i| i as i32 * 3 - 7, Tier::Quick, &mut r);
        run_elements_for::<f64>("f64", &f64_value, Tier::Quick, &mut r);
        let l = std::mem::take(s);
        *s = l.merge(r);
    }
}

fn main() {
    let (cmd, tier) = mc::parse_args();
    mc::quiet_panics();
    if let Cmd::Replay(p) = cmd {
        std::process::exit(mc::report::replay_main(P, &p, replay_case));
    }
    let mut rep = Report::new(P, tier);
    let st = mc::selftest::run();
    rep.note("oracle_selftest", st.to_json());
    rep.require(st.ok, &format!("oracle self-test failed: {}", st.msg));
    let mut s = run(tier);
    s.sample(json!({"check":"ranks","n":15,"q":0.5,"kind":"Two","level":0.95,"oracle":"k=round(7.5)=8 -> Wilson roots -> ranks min(floor(p*15),14) = (4, 11)"}));
    s.sample(json!({"check":"ranks","n":10,"q":"(4+1/2)/10 (q*n at a half-integer: exact tie decided on the rational value of the double)","kind":"Upper","level":0.9}));
    s.sample(json!({"check":"elements","type":"f64","sorted":"[-inf,-2.5,-0.0,+0.0,5e-324,1.0]","order":[5,0,3,2,4,1],"entry_points":["ci","ci_sorted_unchecked","ci_max_size<CAP=n,n+1,1024>","ci_max_size<CAP=n-1> must panic"]}));
    rep.rule = format!("ranks: every n in 0..={} x q grid (j/64, (m+1/2)/n, m/n, quantiles a definite distance from every rounding tie, and invalid/boundary quantiles) x {} confidences through ci_indices and Stats::ci, plus n in {{1e5, 1e6+3, 2^40}}; elements: all permutations of 5 multisets (distinct, ties, all-equal) for n=4..{} and structured orders (sorted, reversed, rotations, interleaves, multiplicative scrambles) for n in {{15,64,257,1024,1025}}, samples of size 0..3, element types i32,u8,f64(+-0,+-inf,subnormal),char,&str,[u64;4],(i64,i64,i64), three unsorted orders of samples beyond 2^16 elements (thorough: beyond 2^20), 6 confidences x 7 quantiles (3 valid, 4 inadmissible), entry points ci / ci_sorted_unchecked / ci_max_size with CAP in {{n,n+1,1024}} and CAP=n-1 (documented panic); distinct by (outcome variant, kind, type)", tier.pick(500, 3000), vcheck::confs(tier).len(), tier.pick("6 (+2 multisets at 7)", "8"));
    rep.assume("ambiguity band: where the rational q*n is within 2^-50 (relative) of a half-integer, or p*n within 1e-9 of an integer, both neighbouring ranks are accepted");
    rep.assume("which rejection variant is returned for an inadmissible input is judged by C11; C03 accepts any of TooFewSamples/InvalidQuantile/TooFewSuccesses/TooFewFailures");
    rep.require(s.distinct() >= 15, "fewer than 15 distinct outcome classes: vacuous");
    rep.require(s.counter("documented-capacity-panics") > 0, "capacity panic never exercised");
    std::process::exit(rep.finish(s));
}
