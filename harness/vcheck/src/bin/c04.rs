//! C04 — paired CI = mean CI of differences; unpaired CI = documented Welch-type interval.

use mc::exact::{exact_stats, qu, to_f64, ExactStats};
use mc::explore::nth_sequence;
use mc::{json, par_judge, Cmd, Kind, Report, Sink, Tier, Value};
use num_traits::Zero;
use stats_ci::comparison::{Paired, Unpaired};
use stats_ci::error::CIError;
use stats_ci::mean::Arithmetic;
use stats_ci::{CIResult, Interval, StatisticsOps};
use vcheck::meanchk::{judge_interval, Expect};
use vcheck::{conf, err_name, shape, Fl};

const P: &str = "C04";
const B: [f64; 5] = [-2.0, 0.0, 0.25, 1.0, 1000.0];
const BP: [f64; 3] = [0.1, 1.1, 7.3];

fn bits_eq<F: Fl>(a: &CIResult<Interval<F>>, b: &CIResult<Interval<F>>) -> bool {
    match (a, b) {
        (Ok(x), Ok(y)) => {
            let (kx, lx, hx) = shape(x);
            let (ky, ly, hy) = shape(y);
            kx == ky && lx.to_bits() == ly.to_bits() && hx.to_bits() == hy.to_bits()
        }
        (Err(x), Err(y)) => err_name(x) == err_name(y),
        _ => false,
    }
}

#[derive(Clone, Copy, Debug, PartialEq, serde::Serialize, serde::Deserialize)]
enum PStyle {
    Ci,
    Extend,
    ExtendTuple,
    AppendPair,
    Mixed,
}
const PSTYLES: [PStyle; 5] = [PStyle::Ci, PStyle::Extend, PStyle::ExtendTuple, PStyle::AppendPair, PStyle::Mixed];

fn paired_state<F: Fl>(st: PStyle, a: &Vec<F>, b: &Vec<F>) -> CIResult<Paired<F>> {
    let mut p = Paired::<F>::default();
    let tuples: Vec<(F, F)> = a.iter().cloned().zip(b.iter().cloned()).collect();
    match st {
        PStyle::Ci | PStyle::Extend => p.extend(a, b)?,
        PStyle::ExtendTuple => p.extend_tuple(&tuples)?,
        PStyle::AppendPair => {
            for (x, y) in &tuples {
                p.append_pair(*x, *y)?;
            }
        }
        PStyle::Mixed => {
            let h = tuples.len() / 2;
            p.extend(&a[..h].to_vec(), &b[..h].to_vec())?;
            for (x, y) in &tuples[h..tuples.len().saturating_sub(1).max(h)] {
                p.append_pair(*x, *y)?;
            }
            if tuples.len() > h {
                p.extend_tuple(&tuples[tuples.len() - 1..].to_vec())?;
            }
        }
    }
    Ok(p)
}

fn judge_paired<F: Fl>(av: &[f64], bv: &[f64], confs: &[(Kind, f64)], s: &mut Sink) {
    let a: Vec<F> = av.iter().map(|&x| F::of(x)).collect();
    let b: Vec<F> = bv.iter().map(|&x| F::of(x)).collect();
    let diffs: Vec<F> = a.iter().zip(&b).map(|(x, y)| *x - *y).collect();
    let reference = Arithmetic::<F>::from_iter(&diffs).unwrap();
    s.calls += 1;
    for &(kind, level) in confs {
        let c = conf(kind, level);
        let want = reference.ci_mean(c);
        s.calls += 1;
        for st in PSTYLES {
            s.evals += 1;
            s.calls += 1;
            let case = || json!({"check":"paired","type":F::NAME,"a":av,"b":bv,"kind":kind,"level":level,"style":st});
            let got = if st == PStyle::Ci { Paired::<F>::ci(c, &a, &b) } else { paired_state::<F>(st, &a, &b).and_then(|p| p.ci_mean(c)) };
            s.outcome(&(F::NAME, "paired", kind, got.is_ok()));
            if !bits_eq(&got, &want) {
                s.violation(
                    format!("paired/not-the-mean-ci-of-differences/{st:?}"),
                    format!("Paired {st:?}<{}>({c:?}, {av:?}, {bv:?}) = {got:?} but Arithmetic::ci of the differences {:?} = {want:?}", F::NAME, diffs.iter().map(|d| d.f()).collect::<Vec<_>>()),
                    case(),
                );
            }
        }
    }
    // statistics of the running state
    for st in PSTYLES {
        if let Ok(p) = paired_state::<F>(st, &a, &b) {
            s.calls += 3;
            let ok = p.sample_count() == reference.sample_count() && p.sample_mean().f().to_bits() == reference.sample_mean().f().to_bits() && (p.sample_sem().f().to_bits() == reference.sample_sem().f().to_bits() || (p.sample_sem().is_nan() && reference.sample_sem().is_nan()));
            if !ok {
                s.violation(format!("paired/statistics-differ/{st:?}"), format!("{st:?}<{}>({av:?},{bv:?}): count {} mean {:?} sem {:?} vs {} {:?} {:?}", F::NAME, p.sample_count(), p.sample_mean(), p.sample_sem(), reference.sample_count(), reference.sample_mean(), reference.sample_sem()), json!({"check":"paired","type":F::NAME,"a":av,"b":bv,"kind":Kind::Two,"level":0.95,"style":st}));
            }
        }
    }
}

/// a container whose by-reference iterator gives no useful size hint ((0, None), like
/// `flatten`) — the iterator protocol allows it, so nothing may rely on the hint
struct NoHint<F>(Vec<F>);
struct NoHintIter<'a, F>(std::slice::Iter<'a, F>);
impl<'a, F> Iterator for NoHintIter<'a, F> {
    type Item = &'a F;
    fn next(&mut self) -> Option<&'a F> {
        self.0.next()
    }
}
impl<'a, F> IntoIterator for &'a NoHint<F> {
    type Item = &'a F;
    type IntoIter = NoHintIter<'a, F>;
    fn into_iter(self) -> NoHintIter<'a, F> {
        NoHintIter(self.0.iter())
    }
}

fn judge_lengths<F: Fl>(la: usize, lb: usize, s: &mut Sink) {
    // the same through iterables without a size hint
    {
        let a = NoHint((0..la).map(|i| F::of(i as f64 + 1.0)).collect::<Vec<F>>());
        let b = NoHint((0..lb).map(|i| F::of(0.5 * i as f64)).collect::<Vec<F>>());
        let c = conf(Kind::Two, 0.95);
        let case = || json!({"check":"lengths","type":F::NAME,"la":la,"lb":lb,"iter":"no size hint"});
        let mut st = Paired::<F>::default();
        let r1 = Paired::<F>::ci(c, &a, &b).map(|_| ());
        let r2 = st.extend(&a, &b);
        s.evals += 2;
        s.calls += 2;
        for (name, r) in [("Paired::ci", r1), ("Paired::extend", r2)] {
            if la != lb {
                match r {
                    Err(CIError::DifferentSampleSizes(x, y)) if (x, y) == (la, lb) => {}
                    other => s.violation(format!("paired/unequal-lengths/{name}/iterator-without-size-hint"), format!("{name} with lengths ({la}, {lb}) through iterators whose size_hint is (0, None) = {other:?}, expected DifferentSampleSizes({la}, {lb})"), case()),
                }
            } else if let Err(CIError::DifferentSampleSizes(..)) = r {
                s.violation(format!("paired/equal-lengths-rejected/{name}/iterator-without-size-hint"), format!("{name} with lengths ({la}, {lb})"), case());
            }
        }
        if la == lb && la >= 2 {
            // and the result must be the same as through slices
            let (va, vb) = (a.0.clone(), b.0.clone());
            let x = Paired::<F>::ci(c, &a, &b);
            let y = Paired::<F>::ci(c, &va, &vb);
            if !bits_eq(&x, &y) {
                s.violation("paired/result-depends-on-the-iterable-type", format!("{x:?} vs {y:?}"), case());
            }
            let xu = Unpaired::<F>::ci(c, &a, &b);
            let yu = Unpaired::<F>::ci(c, &va, &vb);
            if !bits_eq(&xu, &yu) {
                s.violation("unpaired/result-depends-on-the-iterable-type", format!("{xu:?} vs {yu:?}"), case());
            }
        }
    }
    let a: Vec<F> = (0..la).map(|i| F::of(i as f64 + 1.0)).collect();
    let b: Vec<F> = (0..lb).map(|i| F::of(0.5 * i as f64)).collect();
    let c = conf(Kind::Two, 0.95);
    let case = || json!({"check":"lengths","type":F::NAME,"la":la,"lb":lb});
    let mut st = Paired::<F>::default();
    let r1 = Paired::<F>::ci(c, &a, &b).map(|_| ());
    let r2 = st.extend(&a, &b);
    s.evals += 2;
    s.calls += 2;
    for (name, r) in [("Paired::ci", r1), ("Paired::extend", r2)] {
        s.outcome(&("lengths", la == lb, r.is_ok()));
        if la != lb {
            match r {
                Err(CIError::DifferentSampleSizes(x, y)) if (x, y) == (la, lb) => {}
                other => s.violation(format!("paired/unequal-lengths/{name}"), format!("{name} with lengths ({la}, {lb}) = {other:?}, expected DifferentSampleSizes({la}, {lb})"), case()),
            }
        } else if let Err(CIError::DifferentSampleSizes(..)) = r {
            s.violation(format!("paired/equal-lengths-rejected/{name}"), format!("{name} with lengths ({la}, {lb})"), case());
        }
    }
}

// ---------------- unpaired ------------------------------------------------------------

fn welch(ea: &ExactStats, eb: &ExactStats) -> (f64, Option<f64>, f64) {
    let a = &ea.var / qu(ea.n);
    let b = &eb.var / qu(eb.n);
    let sum = &a + &b;
    let den = &a * &a / qu(ea.n + 1) + &b * &b / qu(eb.n + 1);
    let dof = if den.is_zero() { None } else { Some(to_f64(&(&sum * &sum / den - qu(2)))) };
    let abs_var_err = to_f64(&ea.sum_sq) / ((ea.n - 1) as f64 * ea.n as f64) + to_f64(&eb.sum_sq) / ((eb.n - 1) as f64 * eb.n as f64);
    (to_f64(&sum), dof, abs_var_err)
}

fn interleavings(la: usize, lb: usize) -> Vec<Vec<bool>> {
    // all sequences with la 'true' (take from a) and lb 'false'
    let n = la + lb;
    (0..(1u32 << n)).filter(|m| m.count_ones() as usize == la).map(|m| (0..n).map(|i| m >> i & 1 == 1).collect()).collect()
}

fn mirror<F: Fl>(iv: &Interval<F>) -> Interval<F> {
    match iv {
        Interval::TwoSided(a, b) => Interval::TwoSided(-*b, -*a),
        Interval::UpperOneSided(a) => Interval::LowerOneSided(-*a),
        Interval::LowerOneSided(b) => Interval::UpperOneSided(-*b),
    }
}

fn judge_unpaired<F: Fl>(av: &[f64], bv: &[f64], confs: &[(Kind, f64)], full_styles: bool, s: &mut Sink) {
    let a: Vec<F> = av.iter().map(|&x| F::of(x)).collect();
    let b: Vec<F> = bv.iter().map(|&x| F::of(x)).collect();
    let ax: Vec<f64> = a.iter().map(|x| x.f()).collect();
    let bx: Vec<f64> = b.iter().map(|x| x.f()).collect();
    let (ea, eb) = (exact_stats(&ax), exact_stats(&bx));
    let (s2, dof, abs_var_err) = welch(&ea, &eb);
    let center = to_f64(&(&ea.mean - &eb.mean));
    let eps = if s2 > 0.0 { 3.0 * 16.0 * F::U * abs_var_err / s2 } else { f64::INFINITY };
    let e = Expect {
        center,
        center_tol: 8.0 * F::U * (ea.sum_abs_f() / ea.n as f64 + eb.sum_abs_f() / eb.n as f64) + 2.0 * F::U * (ea.mean_f().abs() + eb.mean_f().abs()) + f64::MIN_POSITIVE,
        se: s2.sqrt(),
        dof: dof.unwrap_or(f64::NAN),
        eps,
        u: F::U,
        se_abs: (16.0 * F::U * abs_var_err).sqrt(),
    };
    for &(kind, level) in confs {
        let c = conf(kind, level);
        s.evals += 1;
        s.calls += 2;
        let case = || json!({"check":"unpaired","type":F::NAME,"a":av,"b":bv,"kind":kind,"level":level});
        let got = Unpaired::<F>::ci(c, &a, &b);
        match &got {
            Err(err) => s.violation(format!("unpaired/valid-samples-rejected/{}", err_name(err)), format!("Unpaired::ci<{}>({c:?}, {av:?}, {bv:?}) = Err({err})", F::NAME), case()),
            Ok(iv) => {
                s.outcome(&(F::NAME, "unpaired", kind, dof.map(|d| d.fract() != 0.0)));
                if dof.is_some() || e.se == 0.0 {
                    // (both samples constant: dof is 0/0, the formula claims nothing beyond the
                    // degenerate interval; a zero standard error is judged by the constant branch)
                    judge_interval("unpaired", kind, level, shape(iv), &e, &case, &|| format!("Unpaired::ci<{}>({c:?}, {av:?}, {bv:?}) (effective dof {dof:?})", F::NAME), s);
                    if dof.map(|d| d.fract() != 0.0).unwrap_or(false) {
                        s.count("real-valued-dof-cases", 1);
                    }
                }
            }
        }
        // exchanging the samples negates and mirrors the interval, exchanging upper/lower
        let swapped = Unpaired::<F>::ci(conf(kind.flipped(), level), &b, &a);
        let want_swapped = got.as_ref().ok().map(mirror::<F>);
        match (&swapped, &want_swapped) {
            (Ok(x), Some(y)) => {
                let (kx, lx, hx) = shape(x);
                let (ky, ly, hy) = shape(y);
                // -0.0 vs +0.0 may differ in sign only through (a-b) vs (b-a) at zero
                let same = |p: f64, q: f64| p.to_bits() == q.to_bits() || (p == 0.0 && q == 0.0);
                if !(kx == ky && same(lx, ly) && same(hx, hy)) {
                    s.violation(format!("unpaired/swap-not-mirrored/{}", kind.name()), format!("Unpaired::ci<{}>({c:?}, a, b) = {got:?} but with a and b exchanged and the flipped kind: {swapped:?} (a={av:?}, b={bv:?})", F::NAME), case());
                }
            }
            (Err(_), None) => {}
            _ => s.violation("unpaired/swap-changes-outcome", format!("{got:?} vs swapped {swapped:?} (a={av:?}, b={bv:?})"), case()),
        }
        // feeding styles: identical state => identical interval
        let mut variants: Vec<(&str, CIResult<Interval<F>>)> = vec![];
        variants.push(("from_iter", Unpaired::<F>::from_iter(&a, &b).and_then(|u| u.ci_mean(c))));
        variants.push(("extend", {
            let mut u = Unpaired::<F>::default();
            u.extend(&a, &b).and_then(|_| u.ci_mean(c))
        }));
        variants.push(("extend_b+extend_a", {
            let mut u = Unpaired::<F>::default();
            u.extend_b(&b).and_then(|_| u.extend_a(&a)).and_then(|_| u.ci_mean(c))
        }));
        variants.push(("new(Arithmetic,Arithmetic)", Arithmetic::<F>::from_iter(&a).and_then(|sa| Arithmetic::<F>::from_iter(&b).map(|sb| Unpaired::new(sa, sb))).and_then(|u| u.ci_mean(c))));
        variants.push(("stats_a_mut/stats_b_mut", {
            let mut u = Unpaired::<F>::default();
            let r1 = StatisticsOps::extend(u.stats_a_mut(), &a);
            let r2 = StatisticsOps::extend(u.stats_b_mut(), &b);
            r1.and(r2).and_then(|_| u.ci_mean(c))
        }));
        if a.len() == b.len() {
            variants.push(("append_pair", {
                let mut u = Unpaired::<F>::default();
                let mut r = Ok(());
                for (x, y) in a.iter().zip(&b) {
                    r = r.and(u.append_pair(*x, *y));
                }
                r.and_then(|_| u.ci_mean(c))
            }));
        }
        if full_styles && a.len() + b.len() <= 6 {
            for il in interleavings(a.len(), b.len()) {
                let mut u = Unpaired::<F>::default();
                let (mut i, mut j) = (0, 0);
                for t in &il {
                    if *t {
                        u.append_a(a[i]).unwrap();
                        i += 1;
                    } else {
                        u.append_b(b[j]).unwrap();
                        j += 1;
                    }
                }
                variants.push(("append_a/append_b interleaved", u.ci_mean(c)));
            }
        }
        s.calls += variants.len() as u64;
        for (name, r) in &variants {
            if !bits_eq(r, &got) {
                s.violation(format!("unpaired/feeding-style-differs/{name}"), format!("{name}<{}> = {r:?} but Unpaired::ci = {got:?} (a={av:?}, b={bv:?}, {c:?})", F::NAME), case());
            }
        }
    }
}

fn two_point(n: usize, m: f64, scale: f64) -> Vec<f64> {
    (0..n).map(|i| if n % 2 == 1 && i == n - 1 { m } else if i % 2 == 0 { m + scale } else { m - scale }).collect()
}

enum Job {
    Paired(Vec<f64>, Vec<f64>, bool),
    Lengths(usize, usize),
    Unp(Vec<f64>, Vec<f64>, bool, bool),
    /// one confidence asked of every construction in turn (on one thread)
    UnpChain(Kind, f64, bool),
}

fn seqs(alpha: &[f64], lo: usize, hi: usize) -> Vec<Vec<f64>> {
    let mut v = vec![];
    for len in lo..=hi {
        for idx in 0..(alpha.len() as u64).pow(len as u32) {
            v.push(nth_sequence(alpha.len(), len, idx).into_iter().map(|i| alpha[i]).collect());
        }
    }
    v
}

fn run(tier: Tier) -> Sink {
    let confs = vcheck::confs(tier);
    let confs_q = vcheck::confs(Tier::Quick);
    let mut jobs = vec![];
    let maxlen = tier.pick(3, 4);
    for f32_ in [false, true] {
        for len in 2..=maxlen {
            let ss = seqs(&B, len, len);
            for a in &ss {
                for b in &ss {
                    jobs.push(Job::Paired(a.clone(), b.clone(), f32_));
                }
            }
        }
        for len in 2..=3 {
            let ss = seqs(&BP, len, len);
            for a in &ss {
                for b in &ss {
                    jobs.push(Job::Paired(a.clone(), b.clone(), f32_));
                }
            }
        }
        // unpaired: all pairs of samples of length 2..3 (thorough: ..4) over B, all over BP
        let ua = seqs(&B, 2, tier.pick(3, 4));
        for a in &ua {
            for b in &ua {
                if tier == Tier::Quick && a.len() + b.len() > 5 && (a[0] != B[0] && b[0] != B[4]) {
                    // quick tier: the (3,3) block is thinned to pairs anchored at an extreme value
                    continue;
                }
                jobs.push(Job::Unp(a.clone(), b.clone(), f32_, true));
            }
        }
        let up = seqs(&BP, 2, 3);
        for a in &up {
            for b in &up {
                jobs.push(Job::Unp(a.clone(), b.clone(), f32_, true));
            }
        }
        // constructed samples: (na, nb) in 2..12 squared x 7 sd ratios
        for na in 2..=12 {
            for nb in 2..=12 {
                for r in [0.0, 0.0625, 0.25, 1.0, 4.0, 16.0, 100.0] {
                    jobs.push(Job::Unp(two_point(na, 1.0, 1.0), two_point(nb, -0.5, r), f32_, false));
                }
            }
        }
    }
    // the same constructions at large and small magnitudes (power-of-two scalings keep the
    // data exact): the effective dof must not overflow / underflow in the data's float type
    for (f32_, exps) in [(false, vec![-300, -40, 40, 300]), (true, vec![-40, -20, 20, 40])] {
        for e in exps {
            let k = 2f64.powi(e);
            for (na, nb) in [(2, 2), (3, 2), (5, 4), (12, 7)] {
                for r in [0.0625, 1.0, 16.0] {
                    let a: Vec<f64> = two_point(na, 1.0, 1.0).iter().map(|x| x * k).collect();
                    let b: Vec<f64> = two_point(nb, -0.5, r).iter().map(|x| x * k).collect();
                    jobs.push(Job::Unp(a, b, f32_, false));
                }
            }
        }
    }
    // every binade: the same three constructions scaled by every power of two for which the data
    // and their squares stay normal numbers of the type (f64: 2^-500..2^505, f32: 2^-55..2^60).
    // Intermediate quantities of the effective dof (fourth powers of the data) leave the type's
    // range — overflow, gradual underflow, total underflow — in bands a few binades wide, which
    // only a sweep over all exponents is sure to meet
    for (f32_, lo, hi) in [(false, -500, 505), (true, -55, 60)] {
        for e in lo..=hi {
            let k = 2f64.powi(e);
            for (na, nb, r) in [(3, 2, 1.0), (5, 4, 0.0625), (12, 7, 16.0)] {
                let a: Vec<f64> = two_point(na, 1.0, 1.0).iter().map(|x| x * k).collect();
                let b: Vec<f64> = two_point(nb, -0.5, r).iter().map(|x| x * k).collect();
                // (the sums of squares must stay finite, the smallest square normal)
                let (mx, mn) = a.iter().chain(&b).filter(|x| **x != 0.0).fold((0.0f64, f64::MAX), |(mx, mn), x| (mx.max(x.abs()), mn.min(x.abs())));
                let (tmax, tmin) = if f32_ { (f32::MAX as f64, f32::MIN_POSITIVE as f64) } else { (f64::MAX, f64::MIN_POSITIVE) };
                if mx * mx >= tmax / 64.0 / (na + nb) as f64 || mn * mn <= tmin * 64.0 {
                    continue;
                }
                jobs.push(Job::Unp(a, b, f32_, false));
            }
        }
    }
    // a long tight sample against a short spread one: many observations in total but a small
    // effective dof (the distribution must follow the dof, not the sample sizes)
    for (na, nb, r) in [(100_000usize, 5usize, 400.0), (4, 120_000, 0.001), (60_000, 60_000, 1.0)] {
        jobs.push(Job::Unp(two_point(na, 1.0, 1.0), two_point(nb, -0.5, r), false, false));
        jobs.push(Job::Unp(two_point(na, 1.0, 1.0), two_point(nb, -0.5, r), true, false));
    }
    // confidence-major order: one confidence, then every construction (all with different, mostly
    // fractional effective dofs, many sharing their integer part) one after the other on one
    // thread - an interval is a function of (confidence, data) alone, whatever was asked before
    for &(k, l) in &confs_q {
        for f32_ in [false, true] {
            jobs.push(Job::UnpChain(k, l, f32_));
        }
    }
    for la in 0..=5 {
        for lb in 0..=5 {
            jobs.push(Job::Lengths(la, lb));
        }
    }
    par_judge(&jobs, |j, s| match j {
        Job::Paired(a, b, f32_) => {
            let cf = if a.len() >= 4 { &confs_q } else { &confs };
            if *f32_ {
                judge_paired::<f32>(a, b, cf, s)
            } else {
                judge_paired::<f64>(a, b, cf, s)
            }
        }
        Job::Lengths(la, lb) => {
            judge_lengths::<f64>(*la, *lb, s);
            judge_lengths::<f32>(*la, *lb, s);
        }
        Job::UnpChain(k, l, f32_) => {
            for na in 2..=12 {
                for nb in 2..=12 {
                    for r in [0.0625, 0.25, 1.0, 4.0, 16.0, 100.0] {
                        let (a, b) = (two_point(na, 1.0, 1.0), two_point(nb, -0.5, r));
                        if *f32_ {
                            judge_unpaired::<f32>(&a, &b, &[(*k, *l)], false, s)
                        } else {
                            judge_unpaired::<f64>(&a, &b, &[(*k, *l)], false, s)
                        }
                    }
                }
            }
        }
        Job::Unp(a, b, f32_, full) => {
            let cf = if a.len() + b.len() >= 7 { &confs_q } else { &confs };
            if *f32_ {
                judge_unpaired::<f32>(a, b, cf, *full, s)
            } else {
                judge_unpaired::<f64>(a, b, cf, *full, s)
            }
        }
    })
}

fn replay_case(case: &Value, s: &mut Sink) {
    let f32_ = case["type"] == "f32";
    if case["check"] == "lengths" {
        let (la, lb) = (case["la"].as_u64().unwrap() as usize, case["lb"].as_u64().unwrap() as usize);
        judge_lengths::<f64>(la, lb, s);
        judge_lengths::<f32>(la, lb, s);
        return;
    }
    let kind: Kind = serde_json::from_value(case["kind"].clone()).unwrap();
    let level = case["level"].as_f64().unwrap();
    let a: Vec<f64> = serde_json::from_value(case["a"].clone()).unwrap();
    let b: Vec<f64> = serde_json::from_value(case["b"].clone()).unwrap();
    let confs = [(kind, level)];
    match (case["check"].as_str().unwrap_or(""), f32_) {
        ("paired", false) => judge_paired::<f64>(&a, &b, &confs, s),
        ("paired", true) => judge_paired::<f32>(&a, &b, &confs, s),
        (_, false) => judge_unpaired::<f64>(&a, &b, &confs, true, s),
        (_, true) => judge_unpaired::<f32>(&a, &b, &confs, true, s),
    }
}

fn main() {
    let (cmd, tier) = mc::parse_args();
    mc::quiet_panics();
    if let Cmd::Replay(p) = cmd {
        std::process::exit(mc::report::replay_main(P, &p, replay_case));
    }
    let mut rep = Report::new(P, tier);
    let st = mc::selftest::run();
    rep.note("oracle_selftest", st.to_json());
    rep.require(st.ok, &format!("oracle self-test failed: {}", st.msg));
    let mut s = run(tier);
    s.sample(json!({"check":"paired","type":"f64","a":[1000.0,0.25,-2.0],"b":[0.0,1.0,1.0],"styles":["ci","extend","extend_tuple","append_pair","mixed"],"oracle":"bit-identical to Arithmetic::ci of [1000, -0.75, -3]"}));
    s.sample(json!({"check":"lengths","la":4,"lb":2,"expect":"DifferentSampleSizes(4, 2)"}));
    s.sample(json!({"check":"unpaired","type":"f32","a":[-2.0,1000.0],"b":[0.25,1.0,1.0],"oracle":"centre = exact mean difference; t CDF at the exact documented effective dof; swap = mirrored with flipped kind; 6+ feeding styles and all 10 append interleavings bit-identical"}));
    rep.rule = format!("paired: every pair of equal-length sequences of length 2..{} over {:?} and 2..3 over {:?} x confidences x f64,f32 x 5 feeding styles; all length pairs in 0..5 squared; unpaired: every pair of samples of length 2..{} over the same alphabets (quick: (3,3) block thinned) + (na,nb) in 2..12 squared x 7 sd ratios, x confidences x f64,f32 x feeding styles incl. every append_a/append_b interleaving for <=6 observations; distinct by (type, comparison, kind, ok / real-valued dof)", tier.pick(3, 4), B, BP, tier.pick(3, 4));
    rep.assume("paired intervals must be bit-identical to the real Arithmetic::ci of the differences formed in the float type (the arithmetic path itself is decided by C01)");
    rep.assume("when both samples are constant the documented effective dof is 0/0: only the degenerate interval [d, d] is demanded");
    rep.require(s.counter("real-valued-dof-cases") > 100, "fewer than 100 real-valued dof cases");
    rep.require(s.distinct() >= 20, "fewer than 20 distinct classes: vacuous");
    std::process::exit(rep.finish(s));
}
