//! C05 — geometric / harmonic CIs are the back-transformed arithmetic CIs; non-positive
//! observations are rejected with their value and leave the state unchanged.
//! (values) bounded-exhaustive samples, differential against the real arithmetic path;
//! (state preservation) explicit-state BFS over real registers with fault actions.

use mc::exact::{exact_stats, to_f64};
use mc::explore::{nth_sequence, Bfs};
use mc::{json, par_judge, Cmd, Kind, Report, Sink, Tier, Value};
use stats_ci::error::CIError;
use stats_ci::mean::{Arithmetic, Geometric, Harmonic};
use stats_ci::{CIResult, Interval, StatisticsOps};
use vcheck::{conf, shape, Fl};

const P: &str = "C05";
const POS: [f64; 9] = [0.0009765625, 0.25, 0.5, 1.0, 2.0, 8.0, 1000.0, 3.7, 1e-3];

fn close<F: Fl>(a: f64, b: f64, ulps: f64, scale: f64) -> bool {
    // (an infinite value is only close to itself)
    a == b || (a.is_finite() && b.is_finite() && (a - b).abs() <= ulps * F::U * a.abs().max(b.abs()) * scale)
}

/// long samples are cycles of their first three values: rendered and recorded compactly
struct Show<'a>(&'a [f64]);
impl std::fmt::Debug for Show<'_> {
    fn fmt(&self, f: &mut std::fmt::Formatter<'_>) -> std::fmt::Result {
        if self.0.len() <= 64 {
            write!(f, "{:?}", self.0)
        } else {
            write!(f, "[{:?} cycled to {} observations]", &self.0[..3], self.0.len())
        }
    }
}
fn xs_json(xv: &[f64]) -> Value {
    if xv.len() <= 64 {
        json!(xv)
    } else {
        json!({"cycle": &xv[..3], "n": xv.len()})
    }
}
fn cycle(pat: &[f64], n: usize) -> Vec<f64> {
    (0..n).map(|i| pat[i % pat.len()]).collect()
}

fn judge_sample<F: Fl>(xv_full: &[f64], confs: &[(Kind, f64)], s: &mut Sink) {
    let xv = Show(xv_full);
    let xv = &xv;
    let xs: Vec<F> = xv_full.iter().map(|&x| F::of(x)).collect();
    let logs: Vec<F> = xs.iter().map(|x| x.ln()).collect();
    let recs: Vec<F> = xs.iter().map(|x| F::one() / *x).collect();
    let n = xs.len() as f64;
    let case0 = || json!({"check":"sample","type":F::NAME,"xs":xs_json(xv_full)});
    // --- sample means and standard errors -------------------------------------------
    let g = Geometric::<F>::from_iter(&xs).unwrap();
    let h = Harmonic::<F>::from_iter(&xs).unwrap();
    let a = Arithmetic::<F>::from_iter(&xs).unwrap();
    let al = Arithmetic::<F>::from_iter(&logs).unwrap();
    let ar = Arithmetic::<F>::from_iter(&recs).unwrap();
    s.calls += 5;
    let elog = exact_stats(&logs.iter().map(|x| x.f()).collect::<Vec<_>>());
    let erec = exact_stats(&recs.iter().map(|x| x.f()).collect::<Vec<_>>());
    let (gm, hm, am) = (g.sample_mean().f(), h.sample_mean().f(), a.sample_mean().f());
    let tol_log = 8.0 * F::U * (1.0 + to_f64(&elog.sum_abs) / n);
    if !((gm.ln() - elog.mean_f()).abs() <= tol_log + 2.0 * F::U * gm.ln().abs()) {
        s.violation("geometric/sample_mean", format!("Geometric<{}> of {xv:?}: sample_mean {gm:?}, exp(mean of logs) = {:?}", F::NAME, elog.mean_f().exp()), case0());
    }
    if !close::<F>(hm, 1.0 / erec.mean_f(), 16.0, 1.0) {
        s.violation("harmonic/sample_mean", format!("Harmonic<{}> of {xv:?}: sample_mean {hm:?}, 1/(mean of reciprocals) = {:?}", F::NAME, 1.0 / erec.mean_f()), case0());
    }
    // (G = exp(mean ln x) carries the rounding of the mean logarithm amplified by exp:
    // relative error about u (1 + |ln G|))
    let slack = 16.0 * F::U * n + 8.0 * F::U * (1.0 + gm.ln().abs());
    if !(hm <= gm * (1.0 + slack) && gm <= am * (1.0 + slack)) {
        s.violation("mean-inequality-H<=G<=A", format!("{xv:?} ({}): H={hm:?} G={gm:?} A={am:?}", F::NAME), case0());
    }
    if g.sample_count() != xs.len() || h.sample_count() != xs.len() {
        s.violation("sample_count", format!("{xv:?}: {} {}", g.sample_count(), h.sample_count()), case0());
    }
    // documented transforms of the arithmetic standard error in the transformed space
    let (gs, hs) = (g.sample_sem().f(), h.sample_sem().f());
    let (wg, wh) = (gm * al.sample_sem().f(), hm * hm * ar.sample_sem().f());
    let okg = close::<F>(gs, wg, 16.0, 1.0) || (gs.is_nan() && wg.is_nan());
    let okh = close::<F>(hs, wh, 16.0, 1.0) || (hs.is_nan() && wh.is_nan());
    if !okg {
        s.violation("geometric/sample_sem", format!("Geometric<{}> of {xv:?}: sample_sem {gs:?}, G*se(ln x) = {wg:?}", F::NAME), case0());
    }
    if !okh {
        s.violation("harmonic/sample_sem", format!("Harmonic<{}> of {xv:?}: sample_sem {hs:?}, H^2*se(1/x) = {wh:?}", F::NAME), case0());
    }
    // --- intervals ------------------------------------------------------------------
    for &(kind, level) in confs {
        s.evals += 1;
        s.calls += 6;
        let c = conf(kind, level);
        let case = || json!({"check":"sample","type":F::NAME,"xs":xs_json(xv_full),"kind":kind,"level":level});
        // geometric: exp of the real arithmetic interval of the logarithms
        let want: CIResult<Interval<F>> = Arithmetic::<F>::ci(c, &logs);
        for (name, got) in [("Geometric::ci", Geometric::<F>::ci(c, &xs)), ("Geometric::ci_mean", g.ci_mean(c))] {
            match (&got, &want) {
                (Ok(gi), Ok(wi)) => {
                    let (gk, gl, gh) = shape(gi);
                    let (wk, wl, wh) = shape(wi);
                    s.outcome(&(F::NAME, "geo", kind));
                    // exp applied in the float type (underflow / overflow included)
                    // a missing side stays missing; a present bound is exp of the log-space bound
                    let side = |g: f64, w: f64, missing: f64| if w == missing { g == missing } else { close::<F>(g, F::of(w).exp().f(), 8.0, 1.0 + w.abs().min(1e300)) };
                    let (el, eh) = (F::of(wl).exp().f(), F::of(wh).exp().f());
                    let _ = (el, eh);
                    let ok = gk == wk && gk == kind && side(gl, wl, f64::NEG_INFINITY) && side(gh, wh, f64::INFINITY);
                    if !ok {
                        s.violation(format!("geometric/not-exp-of-log-interval/{}", kind.name()), format!("{name}<{}>({c:?}, {xv:?}) = {gi:?}; exp of the arithmetic interval of the logs {wi:?} = [{:?}, {:?}]", F::NAME, wl.exp(), wh.exp()), case());
                    }
                }
                (Err(_), Err(_)) => {}
                _ => s.violation("geometric/outcome-differs-from-log-space", format!("{name}<{}>({c:?}, {xv:?}) = {got:?}; arithmetic interval of the logs = {want:?}", F::NAME), case()),
            }
        }
        // harmonic: reciprocal of the arithmetic interval of the reciprocals, ends
        // exchanged; an upper request uses the lower one-sided reciprocal-space bound
        let want: CIResult<Interval<F>> = Arithmetic::<F>::ci(c.flipped(), &recs);
        for (name, got) in [("Harmonic::ci", Harmonic::<F>::ci(c, &xs)), ("Harmonic::ci_mean", h.ci_mean(c))] {
            let Ok(wi) = &want else {
                if got.is_ok() {
                    s.violation("harmonic/outcome-differs-from-reciprocal-space", format!("{name} = {got:?} vs {want:?}"), case());
                }
                continue;
            };
            let (_, rl, rh) = shape(wi); // reciprocal-space bounds (-inf/+inf for missing)
            // bounds of the harmonic interval that are claimed: those whose reciprocal-space
            // source is strictly positive
            let claim_lo = kind != Kind::Lower && rh > 0.0 && rh.is_finite();
            let claim_hi = kind != Kind::Upper && rl > 0.0 && rl.is_finite();
            if !(claim_lo || claim_hi) || (kind == Kind::Two && !(claim_lo && claim_hi)) {
                s.skipped += 1;
                continue;
            }
            match &got {
                Ok(gi) => {
                    let (gk, gl, gh) = shape(gi);
                    s.outcome(&(F::NAME, "harm", kind));
                    let mut ok = gk == kind;
                    if claim_lo {
                        ok &= close::<F>(gl, (F::one() / F::of(rh)).f(), 8.0, 1.0);
                    }
                    if claim_hi {
                        ok &= close::<F>(gh, (F::one() / F::of(rl)).f(), 8.0, 1.0);
                    }
                    if !ok {
                        s.violation(format!("harmonic/not-reciprocal-of-reciprocal-interval/{}", kind.name()), format!("{name}<{}>({c:?}, {xv:?}) = {gi:?}; arithmetic interval of the reciprocals at the flipped confidence {wi:?} gives [{:?}, {:?}]", F::NAME, 1.0 / rh, 1.0 / rl), case());
                    }
                }
                Err(e) => s.violation("harmonic/claimed-domain-rejected", format!("{name}<{}>({c:?}, {xv:?}) = Err({e}) although the reciprocal-space interval {wi:?} is strictly positive", F::NAME), case()),
            }
        }
    }
}

// ---------------- state preservation: explicit-state search ---------------------------

/// strictly positive values; 1e-40 is subnormal in f32 and 1e-310 in f64 (used for the
/// f64 registers only): "strictly positive" includes them
const GOOD: [f64; 4] = [0.5, 2.0, 3.7, 1e-40];
const BAD: [f64; 6] = [0.0, -0.0, -1.0, f64::NEG_INFINITY, -5e-324, -1e300];

#[derive(Clone, Debug, PartialEq, serde::Serialize, serde::Deserialize)]
enum Act {
    Append(f64),
    /// extend with a chunk (bad value somewhere inside, or none)
    Extend(Vec<f64>),
}

trait Reg: Copy + Send + Sync + std::fmt::Debug + PartialEq + 'static {
    const NAME: &'static str;
    fn new() -> Self;
    fn append(&mut self, x: f64) -> CIResult<()>;
    fn extend(&mut self, v: &Vec<f64>) -> CIResult<()>;
    fn count(&self) -> usize;
}
impl Reg for Geometric<f64> {
    const NAME: &'static str = "Geometric<f64>";
    fn new() -> Self {
        Geometric::new()
    }
    fn append(&mut self, x: f64) -> CIResult<()> {
        Geometric::append(self, x)
    }
    fn extend(&mut self, v: &Vec<f64>) -> CIResult<()> {
        StatisticsOps::extend(self, v)
    }
    fn count(&self) -> usize {
        self.sample_count()
    }
}
impl Reg for Harmonic<f64> {
    const NAME: &'static str = "Harmonic<f64>";
    fn new() -> Self {
        Harmonic::new()
    }
    fn append(&mut self, x: f64) -> CIResult<()> {
        Harmonic::append(self, x)
    }
    fn extend(&mut self, v: &Vec<f64>) -> CIResult<()> {
        StatisticsOps::extend(self, v)
    }
    fn count(&self) -> usize {
        self.sample_count()
    }
}
impl Reg for Geometric<f32> {
    const NAME: &'static str = "Geometric<f32>";
    fn new() -> Self {
        Geometric::new()
    }
    fn append(&mut self, x: f64) -> CIResult<()> {
        Geometric::append(self, x as f32)
    }
    fn extend(&mut self, v: &Vec<f64>) -> CIResult<()> {
        StatisticsOps::extend(self, &v.iter().map(|x| *x as f32).collect::<Vec<f32>>())
    }
    fn count(&self) -> usize {
        self.sample_count()
    }
}
impl Reg for Harmonic<f32> {
    const NAME: &'static str = "Harmonic<f32>";
    fn new() -> Self {
        Harmonic::new()
    }
    fn append(&mut self, x: f64) -> CIResult<()> {
        Harmonic::append(self, x as f32)
    }
    fn extend(&mut self, v: &Vec<f64>) -> CIResult<()> {
        StatisticsOps::extend(self, &v.iter().map(|x| *x as f32).collect::<Vec<f32>>())
    }
    fn count(&self) -> usize {
        self.sample_count()
    }
}

fn all_actions() -> Vec<Act> {
    let mut v = vec![];
    for g in GOOD {
        v.push(Act::Append(g));
    }
    for b in BAD {
        v.push(Act::Append(b));
    }
    // (becomes 0 in f32, where it is legitimately rejected: `is_bad` is evaluated on the
    // value in the register's float type)
    v.push(Act::Append(1e-310));
    v.push(Act::Extend(vec![2.0, 1e-310]));
    v.push(Act::Extend(vec![]));
    for len in 1..=3usize {
        // chunks of good values
        for idx in 0..3u64.pow(len as u32) {
            let chunk: Vec<f64> = nth_sequence(3, len, idx).into_iter().map(|i| GOOD[i]).collect();
            if len <= 2 {
                v.push(Act::Extend(chunk.clone()));
            }
            // one bad value at every position (other positions: the good chunk)
            if idx % 4 == 0 {
                for p in 0..len {
                    for b in BAD {
                        let mut c = chunk.clone();
                        c[p] = b;
                        v.push(Act::Extend(c));
                    }
                }
            }
        }
    }
    v
}

#[derive(Clone)]
struct St<R: Reg> {
    reg: R,
    model: Vec<f64>,
}

fn is_bad_in<R: Reg>(x: f64) -> bool {
    if R::NAME.ends_with("f32>") {
        (x as f32) <= 0.0
    } else {
        x <= 0.0
    }
}

fn step<R: Reg>(st: &St<R>, act: &Act, s: &mut Sink) -> Option<St<R>> {
    let before = format!("{:?}", st.reg);
    let mut reg = st.reg;
    let mut model = st.model.clone();
    s.evals += 1;
    s.calls += 1;
    let case = || json!({"check":"state","reg":R::NAME,"history":st.model,"act":act});
    match act {
        Act::Append(x) => {
            let r = reg.append(*x);
            if is_bad_in::<R>(*x) {
                s.outcome(&(R::NAME, "append-bad", r.is_ok()));
                match r {
                    Err(CIError::NonPositiveValue(v)) => {
                        // for f32 registers the payload is the f32 value widened
                        let want = if R::NAME.ends_with("f32>") { (*x as f32) as f64 } else { *x };
                        if v.to_bits() != want.to_bits() {
                            s.violation(format!("{}/rejection-carries-wrong-value", R::NAME), format!("append({x:?}) = NonPositiveValue({v:?})"), case());
                        }
                    }
                    other => s.violation(format!("{}/non-positive-value-not-rejected", R::NAME), format!("append({x:?}) after {:?} = {other:?}", st.model), case()),
                }
                let after = format!("{:?}", reg);
                // (== is meaningless once a NaN sits in the register: NaN != NaN)
                if after != before || (!before.contains("NaN") && reg != st.reg) {
                    s.violation(format!("{}/state-changed-by-rejected-append", R::NAME), format!("append({x:?}): {before} -> {after}"), case());
                }
                return Some(St { reg, model });
            } else {
                s.outcome(&(R::NAME, "append-good", r.is_ok()));
                if let Err(e) = r {
                    s.violation(format!("{}/positive-value-rejected", R::NAME), format!("append({x:?}) = Err({e})"), case());
                    return None;
                }
                model.push(*x);
            }
        }
        Act::Extend(chunk) => {
            let r = reg.extend(chunk);
            let bad_pos = chunk.iter().position(|x| is_bad_in::<R>(*x));
            s.outcome(&(R::NAME, "extend", bad_pos, r.is_ok()));
            // expected state: exactly the prefix before the first bad value was consumed
            let prefix: Vec<f64> = chunk.iter().take(bad_pos.unwrap_or(chunk.len())).cloned().collect();
            let mut expect = st.reg;
            for x in &prefix {
                s.calls += 1;
                let _ = expect.append(*x);
            }
            match (bad_pos, r) {
                (Some(p), Err(CIError::NonPositiveValue(v))) => {
                    let want = if R::NAME.ends_with("f32>") { (chunk[p] as f32) as f64 } else { chunk[p] };
                    if v.to_bits() != want.to_bits() {
                        s.violation(format!("{}/rejection-carries-wrong-value", R::NAME), format!("extend({chunk:?}) = NonPositiveValue({v:?})"), case());
                    }
                }
                (None, Ok(())) => {}
                (_, other) => s.violation(format!("{}/extend-outcome", R::NAME), format!("extend({chunk:?}) = {other:?}"), case()),
            }
            if format!("{:?}", reg) != format!("{:?}", expect) {
                s.violation(format!("{}/failed-extend-does-not-leave-the-prefix", R::NAME), format!("extend({chunk:?}) after {:?}: state {:?}, appending the prefix {prefix:?} gives {:?}", st.model, reg, expect), case());
            }
            model.extend(prefix);
        }
    }
    if reg.count() != model.len() {
        s.violation(format!("{}/count", R::NAME), format!("count {} after {:?}", reg.count(), model), case());
    }
    if model.len() > 5 {
        return None;
    }
    Some(St { reg, model })
}

fn search<R: Reg>(depth: usize, s: &mut Sink) -> (u64, u64) {
    let acts = all_actions();
    let bfs = Bfs {
        actions: &|_: &St<R>| acts.clone(),
        step: &|st: &St<R>, a: &Act, sink: &mut Sink| step(st, a, sink),
        key: &|st: &St<R>| format!("{:?}|{}", st.reg, st.model.len()),
        check: &|_: &St<R>, _: &mut Sink| {},
        max_depth: depth,
        max_states: 3_000_000,
    };
    let r = bfs.run(vec![St { reg: R::new(), model: vec![] }], s);
    s.count(&format!("search-states[{}]", R::NAME), r.states);
    (r.states, r.transitions)
}

fn replay_state<R: Reg>(case: &Value, s: &mut Sink) {
    let hist: Vec<f64> = serde_json::from_value(case["history"].clone()).unwrap();
    let act: Act = serde_json::from_value(case["act"].clone()).unwrap();
    let mut reg = R::new();
    for x in &hist {
        reg.append(*x).unwrap();
    }
    step(&St { reg, model: hist }, &act, s);
}

enum Job {
    S(Vec<f64>, bool),
    /// a long sample (judged at the quick confidences in both tiers)
    L(Vec<f64>, bool),
}

fn run(tier: Tier, states: &mut u64) -> Sink {
    let confs = vcheck::confs(tier);
    let confs_q = vcheck::confs(Tier::Quick);
    let mut jobs = vec![];
    for f32_ in [false, true] {
        for len in 2..=tier.pick(3, 6) {
            for idx in 0..(POS.len() as u64).pow(len as u32) {
                jobs.push(Job::S(nth_sequence(POS.len(), len, idx).into_iter().map(|i| POS[i]).collect(), f32_));
            }
        }
        if tier == Tier::Quick {
            // length 4 over a 5-value sub-alphabet
            for idx in 0..5u64.pow(4) {
                jobs.push(Job::S(nth_sequence(5, 4, idx).into_iter().map(|i| [POS[0], POS[3], POS[6], POS[7], POS[8]][i]).collect(), f32_));
            }
        }
        // magnitudes: pairs and triples over 4 values scaled by powers of two (exact)
        let exps: &[i32] = if f32_ { &[-40, -24, 24, 40] } else { &[-300, -60, 53, 60, 300] };
        for &e in exps {
            for len in 2..=3 {
                for idx in 0..4u64.pow(len as u32) {
                    jobs.push(Job::S(nth_sequence(4, len, idx).into_iter().map(|i| [0.25, 1.0, 8.0, 3.7][i] * 2f64.powi(e)).collect(), f32_));
                    // a tight cluster: the reciprocal-space interval stays strictly positive,
                    // so the harmonic clause is actually claimed at this magnitude
                    jobs.push(Job::S(nth_sequence(4, len + 2, idx * 7 + 3).into_iter().map(|i| [1.0, 1.0625, 1.125, 1.25][i] * 2f64.powi(e)).collect(), f32_));
                }
            }
        }
        // long samples (cycles of three values): sizes around and beyond 100 000 observations,
        // where the arithmetic interval in the transformed space switches to the normal quantile
        for pat in [[0.5, 2.0, 3.7], [1.0, 1.0625, 1.25], [1000.0, 0.25, 8.0]] {
            for n in [1_000usize, 99_999, 100_000, 100_001, 100_002, 131_072, 250_000] {
                jobs.push(Job::L(cycle(&pat, n), f32_));
            }
        }
        for &x in &POS {
            jobs.push(Job::S(vec![x, x * (1.0 + 2f64.powi(-20)), x], f32_));
            jobs.push(Job::S(vec![x, x, x], f32_));
        }
    }
    let mut s = par_judge(&jobs, |j, s| match j {
        Job::S(x, false) => judge_sample::<f64>(x, &confs, s),
        Job::S(x, true) => judge_sample::<f32>(x, &confs, s),
        Job::L(x, false) => judge_sample::<f64>(x, &confs_q, s),
        Job::L(x, true) => judge_sample::<f32>(x, &confs_q, s),
    });
    let depth = tier.pick(3, 5);
    let mut st = 0;
    st += search::<Geometric<f64>>(depth, &mut s).0;
    st += search::<Harmonic<f64>>(depth, &mut s).0;
    st += search::<Geometric<f32>>(depth, &mut s).0;
    st += search::<Harmonic<f32>>(depth, &mut s).0;
    *states = st;
    s
}

fn replay_case(case: &Value, s: &mut Sink) {
    if case["check"] == "state" {
        match case["reg"].as_str().unwrap_or("") {
            "Geometric<f64>" => replay_state::<Geometric<f64>>(case, s),
            "Harmonic<f64>" => replay_state::<Harmonic<f64>>(case, s),
            "Geometric<f32>" => replay_state::<Geometric<f32>>(case, s),
            _ => replay_state::<Harmonic<f32>>(case, s),
        }
        return;
    }
    let xs: Vec<f64> = if case["xs"].is_array() {
        serde_json::from_value(case["xs"].clone()).unwrap()
    } else {
        cycle(&serde_json::from_value::<Vec<f64>>(case["xs"]["cycle"].clone()).unwrap(), case["xs"]["n"].as_u64().unwrap() as usize)
    };
    let confs = match (case.get("kind"), case.get("level")) {
        (Some(k), Some(l)) if !k.is_null() => vec![(serde_json::from_value::<Kind>(k.clone()).unwrap(), l.as_f64().unwrap())],
        _ => vcheck::confs(Tier::Quick),
    };
    if case["type"] == "f32" {
        judge_sample::<f32>(&xs, &confs, s)
    } else {
        judge_sample::<f64>(&xs, &confs, s)
    }
}

fn main() {
    let (cmd, tier) = mc::parse_args();
    mc::quiet_panics();
    if let Cmd::Replay(p) = cmd {
        std::process::exit(mc::report::replay_main(P, &p, replay_case));
    }
    let mut rep = Report::new(P, tier);
    let mut states = 0;
    let mut s = run(tier, &mut states);
    rep.note("search_states", json!(states));
    s.sample(json!({"check":"sample","type":"f64","xs":[0.25,1000.0,3.7],"kind":"Upper","level":0.9,"oracle":"Geometric = exp(Arithmetic::ci(ln x)); Harmonic upper = 1/(Arithmetic lower one-sided bound of 1/x)"}));
    s.sample(json!({"check":"state","reg":"Harmonic<f64>","history":[0.5,3.7],"act":{"Extend":[2.0,-0.0,0.5]},"expect":"Err(NonPositiveValue(-0.0)); state == history + [2.0], bit-exact Debug"}));
    s.sample(json!({"check":"state","reg":"Geometric<f32>","history":[],"act":{"Append":"-inf"},"expect":"Err(NonPositiveValue(-inf)), Debug rendering unchanged"}));
    rep.rule = format!("values: every sequence of length 2..{} over {:?} (quick: length 4 over a 5-value sub-alphabet), near-constant and constant triples, x confidences x f64,f32, Geometric/Harmonic ci and ci_mean against the real Arithmetic path on ln x / 1/x; state preservation: BFS to depth {} over real Geometric/Harmonic registers (f64, f32) with actions append(v) for 3 good and 6 non-positive values (0, -0, -1, -inf, -subnormal, -1e300) and extend(chunk) with a non-positive value at every position of chunks of length <=3; distinct by (type, mean, kind) and (register, action class, outcome)", tier.pick(3, 6), POS, tier.pick(3, 5));
    rep.assume("harmonic bounds are claimed only where the reciprocal-space bound they come from is strictly positive (the property's own restriction); other cases are counted as skipped");
    rep.assume("the Debug rendering (all private fields, round-trip float formatting) is used as an injective state key");
    rep.require(s.distinct() >= 20, "fewer than 20 distinct classes: vacuous");
    std::process::exit(rep.finish(s));
}
