//! C06 — critical values are true t / normal quantiles.
//! (integer dof) one incremental pass over exact probe data visits every n from 2 to
//! beyond the t->z switch; (real dof) unpaired constructions give ~1000 real-valued
//! effective dofs; (proportion) z implied by Wilson roots. Oracle: own t / normal CDF.

use mc::exact::{exact_stats_runs, q, qu, to_f64, Q};
use mc::oracle::{norm_cdf, norm_sf, target_prob};
use mc::{json, par_judge, Cmd, Kind, Report, Sink, Tier, Value};
use num_traits::Zero;
use stats_ci::comparison::Unpaired;
use stats_ci::mean::Arithmetic;
use stats_ci::{proportion, Interval, StatisticsOps};
use vcheck::meanchk::{judge_interval, Expect};
use vcheck::{conf, shape64};

const P: &str = "C06";

fn bucket(dof: f64) -> String {
    // 1-2-5 buckets
    let mut b = 1.0;
    loop {
        for m in [1.0, 2.0, 5.0] {
            if dof <= b * m {
                return format!("{}", b * m);
            }
        }
        b *= 10.0;
    }
}

fn query_points(tier: Tier) -> Vec<usize> {
    let mut v: Vec<usize> = vec![];
    match tier {
        Tier::Quick => {
            v.extend(2..=3000);
            v.extend(99_000..=101_000);
            // regression points of the repaired t-quantile defect (statrs' inverse cdf fails there)
            v.extend([49_519, 87_818]);
            let mut x = 3000.0_f64;
            while x < 99_000.0 {
                v.push(x.ceil() as usize);
                x *= 1.02;
            }
        }
        Tier::Thorough => v.extend(2..=101_000),
    }
    v.extend([131_072, 200_001, 1_000_001]);
    v.sort();
    v.dedup();
    v
}

/// integer dof: +1,-1,+1,... (exact sums, exact mean and variance)
fn judge_stream(pts: &[usize], confs: &[(Kind, f64)], s: &mut Sink) {
    let last = *pts.last().unwrap();
    let mut st = Arithmetic::<f64>::new();
    let mut qi = 0;
    for n in 1..=last {
        StatisticsOps::append(&mut st, if n % 2 == 1 { 1.0 } else { -1.0 }).unwrap();
        s.calls += 1;
        if qi < pts.len() && pts[qi] == n {
            let ex = exact_stats_runs(&[(1.0, ((n + 1) / 2) as u64), (-1.0, (n / 2) as u64)]);
            let e = Expect { center: ex.mean_f(), center_tol: 8.0 * 1.2e-16 + 1e-300, se: ex.se_f(), dof: n as f64 - 1.0, eps: 16.0 * 1.2e-16 * ex.cond_sumsq(), u: 1.2e-16, se_abs: 0.0 };
            for &(kind, level) in confs {
                s.evals += 1;
                s.calls += 1;
                let c = conf(kind, level);
                let case = || json!({"check":"stream","n":n,"kind":kind,"level":level});
                match st.ci_mean(c) {
                    Err(err) => s.violation("stream/valid-sample-rejected", format!("n={n} {c:?}: Err({err})"), case()),
                    Ok(iv) => {
                        let before = s.maximum(&format!("cdf_dev[{}]", vcheck::meanchk::decade(e.dof))).unwrap_or(0.0);
                        let _ = before;
                        let sh = shape64(&iv);
                        let (hl, hh) = judge_interval("stream", kind, level, sh, &e, &case, &|| format!("+-1 stream at n={n} (dof {}), {c:?}", n - 1), s);
                        s.outcome(&(kind, (level * 1e4) as i64, bucket(e.dof)));
                        // finer-grained report of the observed deviation (1-2-5 dof buckets)
                        if let Some(h) = hl.or(hh) {
                            let cv = if hl.is_some() { h / e.se } else { h / e.se };
                            let (p, qq) = target_prob(level, kind == Kind::Two);
                            let dev = vcheck::meanchk::cdf_dev(cv, e.dof, p, qq);
                            s.max(&format!("dev_by_dof<={}", bucket(e.dof)), dev, || format!("n={n} {c:?}"));
                        }
                    }
                }
            }
            qi += 1;
        }
    }
}

/// exact Welch-type effective dof of the crate's documented formula
fn welch(na: usize, va: &Q, nb: usize, vb: &Q) -> (Q, Option<Q>) {
    let a = va / qu(na);
    let b = vb / qu(nb);
    let sum = &a + &b;
    let den = &a * &a / qu(na + 1) + &b * &b / qu(nb + 1);
    if den.is_zero() {
        return (sum, None);
    }
    let dof = &sum * &sum / den - qu(2);
    (sum, Some(dof))
}

/// sample of size n with exact mean m and exact variance proportional to `scale`^2:
/// alternating m +- scale (n even) or with one centre value (n odd)
fn two_point(n: usize, m: f64, scale: f64) -> Vec<f64> {
    (0..n).map(|i| if n % 2 == 1 && i == n - 1 { m } else if i % 2 == 0 { m + scale } else { m - scale }).collect()
}

fn judge_unpaired(na: usize, nb: usize, sa: f64, sb: f64, confs: &[(Kind, f64)], s: &mut Sink) {
    judge_unpaired_scaled(na, nb, sa, sb, 0, confs, s)
}

/// the construction with every observation multiplied by 2^e (exact)
fn judge_unpaired_scaled(na: usize, nb: usize, sa: f64, sb: f64, sc: i32, confs: &[(Kind, f64)], s: &mut Sink) {
    let k = 2f64.powi(sc);
    let a = two_point(na, k, sa * k);
    let b = two_point(nb, -0.5 * k, sb * k);
    let run = |v: &[f64]| -> Vec<(f64, u64)> {
        let mut r: Vec<(f64, u64)> = vec![];
        for &x in v {
            if let Some(e) = r.iter_mut().find(|e| e.0 == x) {
                e.1 += 1;
            } else {
                r.push((x, 1));
            }
        }
        r
    };
    let (ea, eb) = (exact_stats_runs(&run(&a)), exact_stats_runs(&run(&b)));
    let (sum, dof) = welch(na, &ea.var, nb, &eb.var);
    let Some(dof) = dof else { return };
    let dof_f = to_f64(&dof);
    if !(dof_f > 0.0) {
        s.skipped += 1;
        return;
    }
    let mut st = Unpaired::<f64>::default();
    // block feeding keeps the pass cheap for the large constructions
    st.extend(&a, &b).unwrap();
    s.calls += 1;
    let center = to_f64(&(&ea.mean - &eb.mean));
    let u = 1.2e-16;
    let cond = ea.cond_sumsq().max(eb.cond_sumsq());
    let e = Expect { center, center_tol: 8.0 * u * (ea.sum_abs_f() / na as f64 + eb.sum_abs_f() / nb as f64) + f64::MIN_POSITIVE, se: to_f64(&sum).sqrt(), dof: dof_f, eps: 40.0 * u * cond, u, se_abs: 0.0 };
    for &(kind, level) in confs {
        s.evals += 1;
        s.calls += 1;
        let c = conf(kind, level);
        let case = || json!({"check":"unpaired","na":na,"nb":nb,"sa":sa,"sb":sb,"scale_exponent":sc,"kind":kind,"level":level});
        match st.ci_mean(c) {
            Err(err) => s.violation("unpaired/valid-sample-rejected", format!("na={na} nb={nb}: Err({err})"), case()),
            Ok(iv) => {
                judge_interval("unpaired", kind, level, shape64(&iv), &e, &case, &|| format!("unpaired na={na} nb={nb} sa={sa} sb={sb} x 2^{sc} (effective dof {dof_f:.4}), {c:?}"), s);
                s.outcome(&("unpaired", kind, bucket(dof_f), dof_f.fract() != 0.0));
                if dof_f.fract() != 0.0 {
                    s.count("real-valued-dof-cases", 1);
                }
            }
        }
    }
}

/// z implied by each Wilson root: z = sqrt(n) (k/n - p)/sqrt(p(1-p)) must satisfy Phi(z) = target
fn judge_prop(n: usize, confs: &[(Kind, f64)], s: &mut Sink) {
    for k in 2..=n.saturating_sub(2) {
        for &(kind, level) in confs {
            s.evals += 1;
            s.calls += 1;
            let c = conf(kind, level);
            let case = || json!({"check":"proportion","n":n,"k":k,"kind":kind,"level":level});
            let Ok(Interval::TwoSided(lo, hi)) = proportion::ci(c, n, k) else {
                s.violation("proportion/not-ok", format!("proportion::ci({c:?}, {n}, {k})"), case());
                continue;
            };
            let (p, qq) = target_prob(level, kind == Kind::Two);
            let phat = k as f64 / n as f64;
            let zs = |b: f64, sign: f64| sign * (n as f64).sqrt() * (phat - b) / (b * (1.0 - b)).sqrt();
            let mut chk = |name: &str, z: f64, s: &mut Sink| {
                let dev = if p > 0.5 { (norm_sf(z) - qq).abs() } else { (norm_cdf(z) - p).abs() };
                // conditioning of z w.r.t. the returned root: |dz/db| * ulp(b)
                let tol = 1e-11 + 0.4 * 4e-16 * (n as f64).sqrt() / (lo.min(1.0 - hi).max(1e-300)).sqrt().min(0.5) * 4.0;
                s.max("proportion_z_cdf_dev", dev, || format!("n={n} k={k} {c:?} {name}"));
                if !(dev <= tol) {
                    s.violation(format!("proportion/implied-z-off/{}", kind.name()), format!("proportion::ci({c:?}, {n}, {k}) {name} root implies z = {z:?}: Phi(z) misses {p} by {dev:.3e}"), case());
                }
            };
            if kind != Kind::Lower {
                chk("low", zs(lo, 1.0), s);
            }
            if kind != Kind::Upper {
                chk("high", zs(hi, -1.0), s);
            }
            s.outcome(&("prop", kind, (level * 1e4) as i64));
        }
    }
}

/// dense sweep (both tiers): every integer dof of a range x a dense one-sided level grid (step 0.0005
/// above 1/2): the upstream quantile routine fails at isolated (dof, quantile) points (a
/// few per million), which only a sweep of this density can meet
fn judge_dense(lo: usize, hi: usize, jmin: usize, s: &mut Sink) {
    let mut st = Arithmetic::<f64>::new();
    for n in 1..=hi {
        StatisticsOps::append(&mut st, if n % 2 == 1 { 1.0 } else { -1.0 }).unwrap();
        if n < lo {
            continue;
        }
        let ex = exact_stats_runs(&[(1.0, ((n + 1) / 2) as u64), (-1.0, (n / 2) as u64)]);
        let (center, se, dof) = (ex.mean_f(), ex.se_f(), n as f64 - 1.0);
        let floor = vcheck::meanchk::tol_floor(dof);
        for j in jmin..=999usize {
            let q = 0.5 + 0.0005 * j as f64;
            s.evals += 1;
            s.calls += 1;
            let c = stats_ci::Confidence::new_upper(q);
            let Ok(Interval::UpperOneSided(lo_b)) = st.ci_mean(c) else {
                s.violation("dense/not-ok", format!("n={n} upper {q}"), json!({"check":"dense","n":n,"level":q}));
                continue;
            };
            let cv = (center - lo_b) / se;
            let dev = vcheck::meanchk::cdf_dev(cv, dof, q, 1.0 - q);
            s.max("dense_sweep_cdf_dev", dev, || format!("n={n} upper {q}"));
            if !(dev <= floor + 1e-12) {
                s.violation(
                    format!("dense/critical-value-off/{}", vcheck::meanchk::decade(dof)),
                    format!("+-1 stream at n={n}, upper one-sided {q}: implied critical value {cv:?} misses the target by {dev:.3e} in probability (tolerance {floor:.1e})"),
                    json!({"check":"dense","n":n,"level":q}),
                );
            }
        }
    }
    s.outcome(&("dense", lo / 10_000));
}

/// dense confidence grid for the level sweeps: every 0.001 step of [0.001, 0.999], every 0.0001 step of
/// the two end decades, and the immediate neighbourhood of 1/2 (where a one-sided critical value
/// changes sign), x 3 kinds
fn dense_confs() -> Vec<(Kind, f64)> {
    let mut l: Vec<f64> = (1..=999).map(|j| j as f64 / 1000.0).collect();
    l.extend((10..=100).map(|j| j as f64 / 10_000.0));
    l.extend((9_900..=9_999).map(|j| j as f64 / 10_000.0));
    l.extend([0.5 - 1e-9, 0.5 + 1e-9, 0.5 - 1e-4, 0.5 + 1e-4, 0.499, 0.501]);
    l.sort_by(|a, b| a.partial_cmp(b).unwrap());
    l.dedup();
    let mut v = vec![];
    for x in l {
        for k in mc::KINDS {
            v.push((k, x));
        }
    }
    v
}

enum Job {
    /// stream queried at the given sizes under the dense confidence grid
    StreamDense(Vec<usize>),
    PropDense(usize),
    Dense(usize, usize, usize),
    Stream(Vec<usize>),
    Unp(usize, usize, f64, f64),
    UnpScaled(usize, usize, f64, f64, i32),
    /// one confidence asked of every construction in turn (on one thread)
    UnpChain(Kind, f64),
    Prop(usize),
}

fn run(tier: Tier) -> Sink {
    let confs = vcheck::confs(tier);
    let mut jobs = vec![];
    let pts = query_points(tier);
    // split the pass into independent ranges (each re-fed from n = 1)
    for chunk in pts.chunks(tier.pick(500, 2000)) {
        jobs.push(Job::Stream(chunk.to_vec()));
    }
    // quick: dof >= 15 000 (where the upstream failures live) x levels 0.70..0.9995;
    // thorough: every dof x 0.5005..0.9995
    {
        let (mut a, jmin) = tier.pick((15_000usize, 400usize), (2, 1));
        while a <= 101_000 {
            jobs.push(Job::Dense(a, (a + 499).min(101_000), jmin));
            a += 500;
        }
    }
    let ratios = [0.0, 0.25, 0.5, 1.0, 2.0, 4.0, 10.0];
    for na in 2..=12 {
        for nb in 2..=12 {
            for r in ratios {
                jobs.push(Job::Unp(na, nb, 1.0, r));
            }
        }
    }
    for (na, nb, r) in [(2, 1000, 1.0), (50_000, 50_001, 1.0), (49_990, 50_020, 1.5), (60_000, 60_000, 1.0), (30_000, 70_000, 0.5), (3, 100_000, 0.25), (500, 700, 3.0), (5_000, 5_001, 1.0),
        // one sample beyond the population limit, the other small and carrying the variance: the
        // effective dof stays small although more than 100 000 observations are involved
        (5, 100_001, 0.25), (4, 250_000, 1.0), (100_500, 3, 10.0), (100_001, 100_001, 1.0), (100_001, 40, 30.0)] {
        jobs.push(Job::Unp(na, nb, 1.0, r));
    }
    for n in 4..=tier.pick(120, 400) {
        jobs.push(Job::Prop(n));
    }
    // confidence-major order: one confidence, then every construction (different, mostly
    // fractional effective dofs, many sharing their integer part) one after the other
    for &(k, l) in &confs {
        jobs.push(Job::UnpChain(k, l));
    }
    // every binade: three constructions scaled by every power of two for which the data and
    // their squares stay normal (2^-500 .. 2^505): intermediate quantities of the effective dof
    // (fourth powers of the data) overflow / underflow gradually / underflow totally in bands a
    // few binades wide
    for e in -500..=505 {
        for (na, nb, r) in [(3, 2, 1.0), (5, 4, 0.0625), (12, 7, 16.0)] {
            if r > 1.0 && e > 500 {
                continue;
            }
            jobs.push(Job::UnpScaled(na, nb, 1.0, r, e));
        }
    }
    // level sweeps: all three kinds on the dense confidence grid, at small dof (every n), on a
    // geometric ladder of larger ones, around the switch and on the normal branch
    {
        let mut ns: Vec<usize> = (2..=tier.pick(64, 1000)).collect();
        let mut x = *ns.last().unwrap() as f64;
        while x < 99_000.0 {
            x *= tier.pick(2.0, 1.05);
            ns.push(x.ceil() as usize);
        }
        ns.extend([99_999, 100_000, 100_001, 100_002, 101_500, 131_072]);
        ns.sort();
        ns.dedup();
        for chunk in ns.chunks(tier.pick(8, 16)) {
            jobs.push(Job::StreamDense(chunk.to_vec()));
        }
        for n in 4..=tier.pick(30, 120) {
            jobs.push(Job::PropDense(n));
        }
    }
    jobs.sort_by_key(|j| match j {
        Job::Dense(_, hi, _) => std::cmp::Reverse(*hi),
        _ => std::cmp::Reverse(0),
    });
    let dconfs = dense_confs();
    par_judge(&jobs, |j, s| match j {
        Job::StreamDense(p) => judge_stream(p, &dconfs, s),
        Job::PropDense(n) => judge_prop(*n, &dconfs, s),
        Job::Dense(lo, hi, jmin) => judge_dense(*lo, *hi, *jmin, s),
        Job::Stream(p) => judge_stream(p, &confs, s),
        Job::Unp(na, nb, sa, sb) => judge_unpaired(*na, *nb, *sa, *sb, &confs, s),
        Job::UnpChain(k, l) => {
            for na in 2..=12 {
                for nb in 2..=12 {
                    for r in [0.25, 0.5, 1.0, 2.0, 4.0, 10.0] {
                        judge_unpaired(na, nb, 1.0, r, &[(*k, *l)], s);
                    }
                }
            }
        }
        Job::UnpScaled(na, nb, sa, sb, e) => judge_unpaired_scaled(*na, *nb, *sa, *sb, *e, &confs, s),
        Job::Prop(n) => judge_prop(*n, &confs, s),
    })
}

fn replay_case(case: &Value, s: &mut Sink) {
    let kind: Kind = serde_json::from_value(case["kind"].clone()).unwrap_or(Kind::Upper);
    let level = case["level"].as_f64().unwrap();
    let confs = [(kind, level)];
    match case["check"].as_str().unwrap_or("") {
        "dense" => {
            let n = case["n"].as_u64().unwrap() as usize;
            judge_dense(n, n, 1, s)
        }
        "stream" => judge_stream(&[case["n"].as_u64().unwrap() as usize], &confs, s),
        "unpaired" => judge_unpaired_scaled(case["na"].as_u64().unwrap() as usize, case["nb"].as_u64().unwrap() as usize, case["sa"].as_f64().unwrap(), case["sb"].as_f64().unwrap(), case["scale_exponent"].as_i64().unwrap_or(0) as i32, &confs, s),
        _ => judge_prop(case["n"].as_u64().unwrap() as usize, &confs, s),
    }
}

fn main() {
    let (cmd, tier) = mc::parse_args();
    mc::quiet_panics();
    if let Cmd::Replay(p) = cmd {
        std::process::exit(mc::report::replay_main(P, &p, replay_case));
    }
    let mut rep = Report::new(P, tier);
    let st = mc::selftest::run();
    rep.note("oracle_selftest", st.to_json());
    rep.require(st.ok, &format!("oracle self-test failed: {}", st.msg));
    let _ = (q(0.0), Q::zero());
    let mut s = run(tier);
    s.sample(json!({"check":"stream","n":2,"dof":1,"kind":"Lower","level":0.001,"oracle":"t CDF(1 dof) at the signed implied critical value = 0.001"}));
    s.sample(json!({"check":"stream","n":100001,"dof":100000,"kind":"Two","level":0.95,"oracle":"normal CDF (t accepted within 1% of the switch)"}));
    s.sample(json!({"check":"unpaired","na":3,"nb":7,"sa":1.0,"sb":0.25,"oracle":"exact effective dof (real-valued) from rational variances; t CDF at that dof"}));
    s.sample(json!({"check":"proportion","n":30,"k":7,"kind":"Upper","level":0.9,"oracle":"z = sqrt(n)(k/n-p)/sqrt(p(1-p)) at the returned root; Phi(z) = 0.9"}));
    rep.rule = format!("integer dof: +1,-1,... stream queried at {} sample sizes ({}) x {} confidences; real dof: unpaired two-point constructions (na,nb) in 2..12 squared x 7 sd ratios + 13 large/unbalanced constructions (5 with a sample beyond the population limit) + 3 constructions scaled by every power of two 2^-500..2^505; proportion: every admissible (n,k), n<={}; level sweeps: {} confidences (every 0.001 of [0.001,0.999], every 0.0001 of [0.001,0.01] and [0.99,0.9999], neighbours of 1/2; x 3 kinds) at every n <= {} plus a geometric ladder up to and beyond the switch, and for every admissible (n,k), n <= {}, of the proportion interval; dense sweep: quick dof 15000..100999 x 600 one-sided levels 0.70..0.9995, thorough every dof 1..100999 x 999 levels 0.5005..0.9995 (dense sweep for isolated failures of the upstream quantile routine); distinct by (kind, level, 1-2-5 dof bucket)", query_points(tier).len(), tier.pick("every n<=3000, every n in 99000..101000, 2% geometric steps between, 131072, 200001, 1000001", "every n in 2..101000, 131072, 200001, 1000001"), vcheck::confs(tier).len(), tier.pick(120, 400), dense_confs().len(), tier.pick(64, 1000), tier.pick(30, 120));
    rep.assume("the tolerance floor per dof tier is bounded below by the accuracy of the upstream (statrs) quantile routine; observed maxima per 1-2-5 dof bucket are in coverage.maxima");
    rep.require(s.counter("real-valued-dof-cases") > 100, "fewer than 100 real-valued dof cases");
    rep.require(s.distinct() >= 100, "fewer than 100 distinct classes: vacuous");
    std::process::exit(rep.finish(s));
}
