//! C07 — interval predicates are exactly the set relations of the denoted closed sets.
//!
//! Exhaustive enumeration of every interval (all three kinds) over a chain that
//! realises every order type of ≤ 4 bounds + 1 probe, all ordered pairs, all probes,
//! for several element types; oracle = explicit bit-set denotations (DESIGN §4/C07, §5).

use mc::{json, Cmd, Report, Sink, Tier, Value};
use std::fmt::Debug;
use std::ops::{Bound, RangeBounds};
use vcheck::ivx::*;

const P: &str = "C07";

fn judge_pair<T: PartialOrd + Clone + Debug>(c: &Chain<T>, a: Iv, b: Iv, s: &mut Sink) {
    let (ia, ib) = (c.build(a), c.build(b));
    let (sa, sb) = (c.bits(a), c.bits(b));
    let case = |f: &str| json!({"check":"pair","type":c.name,"n":c.top()+1,"a":a,"b":b,"fn":f});
    s.evals += 1;
    let exp_inter = sa & sb != 0;
    let exp_incl = sa & sb == sb;
    let exp_sub = sa & sb == sa;
    let got = ia.intersects(&ib);
    let got_rev = ib.intersects(&ia);
    let got_incl = ia.includes(&ib);
    let got_sub = ia.is_included_in(&ib);
    s.calls += 4;
    s.outcome(&(a.kind(), b.kind(), got, got_incl, got_sub, exp_inter, exp_incl, exp_sub));
    if got != exp_inter {
        s.violation(
            format!("intersects/{}x{}/got={}", a.kind(), b.kind(), got),
            format!("{:?}.intersects({:?}) = {} but the sets {}", ia, ib, got, if exp_inter { "share a point" } else { "are disjoint" }),
            case("intersects"),
        );
    }
    if got != got_rev {
        s.violation(
            format!("intersects-asymmetric/{}x{}", a.kind(), b.kind()),
            format!("{:?}.intersects({:?}) = {} but reversed = {}", ia, ib, got, got_rev),
            case("intersects"),
        );
    }
    if got_incl != exp_incl {
        s.violation(
            format!("includes/{}x{}/got={}", a.kind(), b.kind(), got_incl),
            format!("{:?}.includes({:?}) = {} but superset relation is {}", ia, ib, got_incl, exp_incl),
            case("includes"),
        );
    }
    if got_sub != exp_sub {
        s.violation(
            format!("is_included_in/{}x{}/got={}", a.kind(), b.kind(), got_sub),
            format!("{:?}.is_included_in({:?}) = {} but subset relation is {}", ia, ib, got_sub, exp_sub),
            case("is_included_in"),
        );
    }
}

fn judge_probe<T: PartialOrd + Clone + Debug>(c: &Chain<T>, a: Iv, x: u8, s: &mut Sink) {
    let ia = c.build(a);
    let xv = &c.vals[x as usize];
    let exp = c.bits(a) >> c.pos[x as usize] & 1 == 1;
    let case = |f: &str| json!({"check":"probe","type":c.name,"n":c.top()+1,"a":a,"x":x,"fn":f});
    s.evals += 1;
    let got = ia.contains(xv);
    let got_rb = <Interval<T> as RangeBounds<T>>::contains(&ia, xv);
    s.calls += 2;
    s.outcome(&(a.kind(), got, got_rb, exp));
    if got != exp {
        s.violation(
            format!("contains/{}/got={}", a.kind(), got),
            format!("{:?}.contains({:?}) = {} but membership is {}", ia, xv, got, exp),
            case("contains"),
        );
    }
    if got_rb != exp {
        s.violation(
            format!("rangebounds-contains/{}/got={}", a.kind(), got_rb),
            format!("RangeBounds::contains({:?}, {:?}) = {} but membership is {}", ia, xv, got_rb, exp),
            case("rangebounds"),
        );
    }
    // the bounds themselves: start is Included(low)/Unbounded, end Included(high)/Unbounded
    let sb_ok = match (a, ia.start_bound()) {
        (Iv::Two(i, _), Bound::Included(v)) | (Iv::Upper(i), Bound::Included(v)) => *v == c.vals[i as usize],
        (Iv::Lower(_), Bound::Unbounded) => true,
        _ => false,
    };
    let eb_ok = match (a, ia.end_bound()) {
        (Iv::Two(_, j), Bound::Included(v)) | (Iv::Lower(j), Bound::Included(v)) => *v == c.vals[j as usize],
        (Iv::Upper(_), Bound::Unbounded) => true,
        _ => false,
    };
    s.calls += 2;
    if !sb_ok {
        s.violation(format!("start_bound/{}", a.kind()), format!("{:?}.start_bound() = {:?}", ia, ia.start_bound()), case("start_bound"));
    }
    if !eb_ok {
        s.violation(format!("end_bound/{}", a.kind()), format!("{:?}.end_bound() = {:?} (closed set needs Included/Unbounded)", ia, ia.end_bound()), case("end_bound"));
    }
}

use stats_ci::Interval;

fn run_chain<T: PartialOrd + Clone + Debug + Sync>(c: &Chain<T>, s: &mut Sink) {
    let ivs = c.intervals();
    s.count(&format!("intervals[{}/{}]", c.name, c.top() + 1), ivs.len() as u64);
    for &a in &ivs {
        for &b in &ivs {
            judge_pair(c, a, b, s);
        }
        for x in 0..c.vals.len() as u8 {
            judge_probe(c, a, x, s);
        }
    }
}

/// float intervals whose *bounds* are infinite: only membership and the
/// two-sided/two-sided relations are judged (a two-sided [x, +inf] and the one-sided
/// [x, →) have the same float members, so superset between them is not claimed).
fn run_inf_bounds(s: &mut Sink) {
    let vals = [f64::NEG_INFINITY, -1.0, -0.0, 0.0, 1.0, f64::INFINITY];
    let pos = [0u8, 1, 2, 2, 3, 4];
    let mut ivs: Vec<(usize, usize)> = vec![];
    for i in 0..vals.len() {
        for j in 0..vals.len() {
            if pos[i] <= pos[j] {
                ivs.push((i, j));
            }
        }
    }
    let bits = |(i, j): (usize, usize)| -> u32 {
        let mut b = 0;
        for p in pos[i]..=pos[j] {
            b |= 1 << p;
        }
        b
    };
    for &a in &ivs {
        let ia = Interval::TwoSided(vals[a.0], vals[a.1]);
        for (x, xv) in vals.iter().enumerate() {
            let exp = bits(a) >> pos[x] & 1 == 1;
            s.evals += 1;
            s.calls += 2;
            let got = ia.contains(xv);
            let got_rb = <Interval<f64> as RangeBounds<f64>>::contains(&ia, xv);
            let case = json!({"check":"infprobe","a":[a.0,a.1],"x":x});
            if got != exp {
                s.violation(format!("contains/TwoSided-infinite-bound/got={got}"), format!("{ia:?}.contains({xv:?}) = {got}"), case.clone());
            }
            if got_rb != exp {
                s.violation(format!("rangebounds-contains/TwoSided/got={got_rb}"), format!("RangeBounds::contains({ia:?}, {xv:?}) = {got_rb}"), case);
            }
        }
        for &b in &ivs {
            let ib = Interval::TwoSided(vals[b.0], vals[b.1]);
            let (sa, sb) = (bits(a), bits(b));
            s.evals += 1;
            s.calls += 3;
            let case = json!({"check":"infpair","a":[a.0,a.1],"b":[b.0,b.1]});
            if ia.intersects(&ib) != (sa & sb != 0) {
                s.violation("intersects/TwoSidedxTwoSided/infinite-bounds", format!("{ia:?}.intersects({ib:?}) = {}", ia.intersects(&ib)), case.clone());
            }
            if ia.includes(&ib) != (sa & sb == sb) {
                s.violation("includes/TwoSidedxTwoSided/infinite-bounds", format!("{ia:?}.includes({ib:?}) = {}", ia.includes(&ib)), case.clone());
            }
            if ia.is_included_in(&ib) != (sa & sb == sa) {
                s.violation("is_included_in/TwoSidedxTwoSided/infinite-bounds", format!("{ia:?}.is_included_in({ib:?}) = {}", ia.is_included_in(&ib)), case);
            }
        }
    }
}

/// a NaN probe is a value of the float type that belongs to no interval (it satisfies no
/// comparison); both views of every float interval must say so ("same membership for every
/// value")
fn run_nan_probes(s: &mut Sink) {
    fn go<F: num_traits::Float + Debug>(name: &str, s: &mut Sink) {
        let vals = [F::neg_infinity(), F::from(-1.5).unwrap(), F::neg_zero(), F::zero(), F::min_positive_value(), F::one(), F::max_value(), F::infinity()];
        let nan = F::nan();
        let mut ivs: Vec<Interval<F>> = vec![];
        for (i, a) in vals.iter().enumerate() {
            for b in &vals[i..] {
                ivs.push(Interval::TwoSided(*a, *b));
            }
            ivs.push(Interval::UpperOneSided(*a));
            ivs.push(Interval::LowerOneSided(*a));
        }
        for (k, iv) in ivs.iter().enumerate() {
            s.evals += 1;
            s.calls += 2;
            let got = iv.contains(&nan);
            let got_rb = <Interval<F> as RangeBounds<F>>::contains(iv, &nan);
            s.outcome(&("nan-probe", got, got_rb));
            let case = json!({"check":"nanprobe","type":name,"k":k});
            if got {
                s.violation(format!("contains/NaN-probe/{name}"), format!("{iv:?}.contains(NaN) = true: NaN is a member of no interval"), case.clone());
            }
            if got_rb {
                s.violation(format!("rangebounds-contains/NaN-probe/{name}"), format!("RangeBounds::contains({iv:?}, NaN) = true"), case);
            }
        }
    }
    go::<f64>("f64", s);
    go::<f32>("f32", s);
}

fn run_all(n: usize, s: &mut Sink) {
    run_chain(&chain_i32(n), s);
    run_chain(&chain_u8(n), s);
    run_chain(&chain_f64(n), s);
    run_chain(&chain_f32(n), s);
    run_chain(&chain_char(n), s);
    run_chain(&chain_str(n), s);
    run_chain(&chain_string(n), s);
}

fn replay_case(case: &Value, s: &mut Sink) {
    let n = case["n"].as_u64().unwrap_or(9) as usize;
    let ty = case["type"].as_str().unwrap_or("");
    macro_rules! go {
        ($c:expr) => {{
            let c = $c;
            let a: Iv = serde_json::from_value(case["a"].clone()).unwrap();
            if case["check"] == "pair" {
                let b: Iv = serde_json::from_value(case["b"].clone()).unwrap();
                judge_pair(&c, a, b, s);
            } else {
                judge_probe(&c, a, case["x"].as_u64().unwrap() as u8, s);
            }
        }};
    }
    match (case["check"].as_str().unwrap_or(""), ty) {
        ("infprobe", _) | ("infpair", _) => run_inf_bounds(s),
        ("nanprobe", _) => run_nan_probes(s),
        (_, "i32") => go!(chain_i32(n)),
        (_, "u8") => go!(chain_u8(n)),
        (_, "f64") => go!(chain_f64(n)),
        (_, "f32") => go!(chain_f32(n)),
        (_, "char") => go!(chain_char(n)),
        (_, "&str") => go!(chain_str(n)),
        (_, "String") => go!(chain_string(n)),
        _ => eprintln!("unknown replay case"),
    }
}

fn main() {
    let (cmd, tier) = mc::parse_args();
    if let Cmd::Replay(p) = cmd {
        std::process::exit(mc::report::replay_main(P, &p, replay_case));
    }
    let mut rep = Report::new(P, tier);
    let mut s = Sink::new();
    run_all(9, &mut s);
    run_inf_bounds(&mut s);
    run_nan_probes(&mut s);
    {
        let _ = tier;
        // redundancy check of the small-scope argument: a longer chain must not change anything
        run_all(11, &mut s);
    }
    s.sample(json!({"type":"i32","a":{"Two":[2,5]},"b":{"Upper":4},"calls":["intersects","intersects(rev)","includes","is_included_in"]}));
    s.sample(json!({"type":"f64","a":{"Lower":3},"probe":"+0.0 (value index 4)","calls":["contains","RangeBounds::contains","start_bound","end_bound"]}));
    s.sample(json!({"type":"&str","a":{"Two":[1,1]},"b":{"Two":[1,6]},"note":"degenerate vs shared endpoint"}));
    rep.rule = "every interval of the three kinds with bounds in the inner positions of a 9-chain and again of an 11-chain (redundancy check of the small-scope argument) x every ordered pair x every probe value (outer positions included), for i32,u8,f64(+-0, subnormal, +-inf probes),f32,char,&str,String; plus float two-sided intervals with infinite bounds, and a NaN probe against every float interval over 8 boundary values (member of none, in both views); a case is distinct by (kinds, observed results, expected relations)".into();
    rep.assume("parametricity: predicates inspect T only through comparisons, so a chain realising all order types of <=4 bounds + 1 probe decides all totally ordered T (DESIGN §5)");
    rep.assume("NaN *bounds* are outside the property's quantifier and are not enumerated; a NaN *probe* is a value of the element type and belongs to no interval");
    rep.require(s.distinct() >= 20, "fewer than 20 distinct (kind, outcome) classes: vacuous");
    std::process::exit(rep.finish(s));
}
