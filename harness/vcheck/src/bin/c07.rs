fn main(){}
