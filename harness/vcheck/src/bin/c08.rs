//! C08 — compensated summation error is O(u*sum|x|), independent of the number of terms.
//! (S) every short sequence over a cancellation-forcing alphabet through every binary
//! merge tree of every contiguous split; (W) whole-type windows of bf16 / f16;
//! (L) long run-length patterns fed value by value, as merge chains and as balanced
//! reductions; (A) the statistics built on the registers. Oracle: exact integer sums.

use half::{bf16, f16};
use mc::explore::nth_sequence;
use mc::{json, par_judge, par_range, Cmd, Report, Sink, Tier, Value};
use num_traits::Float;
use stats_ci::mean::Arithmetic;
use stats_ci::utils::KahanSum;
use stats_ci::StatisticsOps;

const P: &str = "C08";
/// the constant of the bound |value - S| <= (C u + C n u^2) sum|x|: 2u is the classical
/// bound of compensated summation, +u for the final rounding in value(), +u margin
/// (DESIGN C08; the observed maximum ratio per sub-check is reported in the evidence)
const C: f64 = 4.0;

trait K: Float + Send + Sync + std::fmt::Debug + 'static {
    const NAME: &'static str;
    const U: f64;
    /// the "huge" alphabet value (forces cancellation and absorbed small terms)
    const BIG: f64 = 1048576.0;
    fn of(x: f64) -> Self;
    fn f(self) -> f64;
}
impl K for f64 {
    const NAME: &'static str = "f64";
    const U: f64 = 1.1102230246251565e-16;
    fn of(x: f64) -> Self {
        x
    }
    fn f(self) -> f64 {
        self
    }
}
impl K for f32 {
    const NAME: &'static str = "f32";
    const U: f64 = 5.960464477539063e-8;
    fn of(x: f64) -> Self {
        x as f32
    }
    fn f(self) -> f64 {
        self as f64
    }
}
impl K for f16 {
    const NAME: &'static str = "f16";
    const U: f64 = 0.00048828125;
    const BIG: f64 = 1024.0;
    fn of(x: f64) -> Self {
        f16::from_f64(x)
    }
    fn f(self) -> f64 {
        self.to_f64()
    }
}
impl K for bf16 {
    const NAME: &'static str = "bf16";
    const U: f64 = 0.00390625;
    fn of(x: f64) -> Self {
        bf16::from_f64(x)
    }
    fn f(self) -> f64 {
        self.to_f64()
    }
}

/// exact value of a finite double as an integer multiple of 2^-SCALE (panics if not exact)
const SCALE: i32 = 80;
fn fx(x: f64) -> i128 {
    if x == 0.0 {
        return 0;
    }
    let bits = x.to_bits();
    let sign = if bits >> 63 == 1 { -1i128 } else { 1 };
    let e = ((bits >> 52) & 0x7ff) as i32;
    let m = (bits & ((1u64 << 52) - 1)) as i128;
    let (mut m, mut e) = if e == 0 { (m, -1074) } else { (m | (1i128 << 52), e - 1075) };
    while m & 1 == 0 {
        m >>= 1;
        e += 1;
    }
    let sh = e + SCALE;
    assert!(sh >= 0 && (sh as u32) + (128 - m.leading_zeros()) < 126, "value {x} outside the fixed-point range");
    sign * (m << sh)
}
fn fx_to_f64(v: i128) -> f64 {
    v as f64 * 2f64.powi(-SCALE)
}

/// judge a computed value against the exact sum; `n` terms, `sabs` = exact sum |x|
#[allow(clippy::too_many_arguments)]
fn judge_value<F: K>(sub: &str, got: F, exact: i128, sabs: i128, n: u64, descr: &dyn Fn() -> String, case: &dyn Fn() -> Value, s: &mut Sink) {
    judge_value_s::<F>(sub, got, exact, sabs, n, 0, descr, case, s)
}

/// `shift`: the exact sums are in units of 2^(shift - SCALE) (streams at small / large magnitude)
#[allow(clippy::too_many_arguments)]
fn judge_value_s<F: K>(sub: &str, got: F, exact: i128, sabs: i128, n: u64, shift: i32, descr: &dyn Fn() -> String, case: &dyn Fn() -> Value, s: &mut Sink) {
    s.evals += 1;
    let g = got.f() * 2f64.powi(-shift);
    if !g.is_finite() {
        s.skipped += 1; // partial sums overflowed the type
        return;
    }
    if (n as f64) * F::U > 0.125 {
        s.skipped += 1;
        return;
    }
    let err = (fx(g) - exact).abs();
    let sabs_f = fx_to_f64(sabs);
    let bound = (C * F::U + C * n as f64 * F::U * F::U) * sabs_f;
    let e = fx_to_f64(err);
    if sabs == 0 {
        if err != 0 {
            s.violation(format!("{sub}/{}/nonzero-sum-of-zeros", F::NAME), descr(), case());
        }
        return;
    }
    let ratio = e / (F::U * sabs_f);
    s.max(&format!("err_over_u_sumabs[{sub}/{}]", F::NAME), ratio, descr);
    s.outcome(&(sub, F::NAME, (ratio * 4.0) as i64));
    if !(e <= bound) {
        s.violation(
            format!("{sub}/{}/error-exceeds-bound", F::NAME),
            format!("{}: value {g:?}, exact sum {:?}, error {e:.3e} = {ratio:.2} u*sum|x| (bound {C} u + {C} n u^2, n = {n})", descr(), fx_to_f64(exact)),
            case(),
        );
    }
}

// ---------------- (S) short sequences x merge trees ------------------------------------

fn alphabet<F: K>() -> Vec<F> {
    let u = F::U;
    [1.0, 1.0 + 2.0 * u, u, 0.1, 3.0, F::BIG, -F::BIG, -1.0].iter().map(|&x| F::of(x)).collect()
}

#[derive(Clone, Debug)]
enum Tree {
    Leaf(usize),
    Node(Box<Tree>, Box<Tree>),
}

fn trees(lo: usize, hi: usize) -> Vec<Tree> {
    if hi - lo == 1 {
        return vec![Tree::Leaf(lo)];
    }
    let mut v = vec![];
    for mid in lo + 1..hi {
        for l in trees(lo, mid) {
            for r in trees(mid, hi) {
                v.push(Tree::Node(Box::new(l.clone()), Box::new(r.clone())));
            }
        }
    }
    v
}

fn eval<F: K>(t: &Tree, leaves: &[KahanSum<F>], by_value: bool, calls: &mut u64) -> KahanSum<F> {
    match t {
        Tree::Leaf(i) => leaves[*i],
        Tree::Node(l, r) => {
            let a = eval(l, leaves, by_value, calls);
            let b = eval(r, leaves, by_value, calls);
            *calls += 1;
            if by_value {
                a + b
            } else {
                let mut a = a;
                a += b;
                a
            }
        }
    }
}

/// all compositions of n into m positive parts (contiguous splits)
fn splits(n: usize, m: usize) -> Vec<Vec<usize>> {
    fn rec(n: usize, m: usize, cur: &mut Vec<usize>, out: &mut Vec<Vec<usize>>) {
        if m == 1 {
            cur.push(n);
            out.push(cur.clone());
            cur.pop();
            return;
        }
        for first in 1..=n - (m - 1) {
            cur.push(first);
            rec(n - first, m - 1, cur, out);
            cur.pop();
        }
    }
    let mut out = vec![];
    if m >= 1 && n >= m {
        rec(n, m, &mut vec![], &mut out);
    }
    out
}

fn judge_short<F: K>(idx: &[usize], alpha: &[F], tree_cache: &[Vec<Tree>], s: &mut Sink) {
    let xs: Vec<F> = idx.iter().map(|&i| alpha[i]).collect();
    let n = xs.len();
    let exact: i128 = xs.iter().map(|x| fx(x.f())).sum();
    let sabs: i128 = xs.iter().map(|x| fx(x.f()).abs()).sum();
    let case = |feed: &str| json!({"check":"S","type":F::NAME,"idx":idx,"feed":feed});
    let d = |feed: &str| format!("{} {:?} fed {feed}", F::NAME, xs.iter().map(|x| x.f()).collect::<Vec<_>>());
    // (i) value by value
    let mut k = KahanSum::<F>::default();
    for &x in &xs {
        k += x;
    }
    s.calls += n as u64;
    judge_value::<F>("S", k.value(), exact, sabs, n as u64, &|| d("value by value"), &|| case("values"), s);
    // (ii) new(x0) + rest, `+` by value
    if n >= 1 {
        let mut k = KahanSum::new(xs[0]);
        for &x in &xs[1..] {
            k = k + x;
        }
        s.calls += n as u64;
        judge_value::<F>("S", k.value(), exact, sabs, n as u64, &|| d("new(x0) then + x"), &|| case("new+plus"), s);
        let k2: KahanSum<F> = KahanSum::from(xs[0]);
        if k2.value().f() != xs[0].f() {
            s.violation(format!("S/{}/from", F::NAME), d("from(x)"), case("from"));
        }
    }
    // right-deep chain over single-element registers: x0 += (x1 += (... += xn))
    if n >= 2 {
        let mut acc = KahanSum::<F>::default();
        acc += xs[n - 1];
        for &x in xs[..n - 1].iter().rev() {
            let mut nw = KahanSum::<F>::default();
            nw += x;
            nw += acc;
            acc = nw;
        }
        s.calls += 2 * n as u64;
        judge_value::<F>("S-rchain", acc.value(), exact, sabs, n as u64, &|| d("as a right-deep chain of single-element registers"), &|| case("rchain"), s);
    }
    // (iii) every contiguous split into <= 4 registers x every binary merge tree, += and +
    for m in 2..=n.min(4) {
        for sp in splits(n, m) {
            let mut leaves: Vec<KahanSum<F>> = vec![];
            let mut pos = 0;
            for len in &sp {
                let mut r = KahanSum::<F>::default();
                for &x in &xs[pos..pos + len] {
                    r += x;
                }
                pos += len;
                leaves.push(r);
            }
            s.calls += n as u64;
            for t in &tree_cache[m] {
                for by_value in [false, true] {
                    let mut calls = 0;
                    let r = eval(t, &leaves, by_value, &mut calls);
                    s.calls += calls;
                    judge_value::<F>("S-merge", r.value(), exact, sabs, n as u64, &|| d(&format!("split {sp:?} tree {t:?} {}", if by_value { "+" } else { "+=" })), &|| case(&format!("split {sp:?} tree {t:?}")), s);
                }
            }
            // empty registers at every leaf position (left fold)
            for e in 0..=m {
                let mut acc = KahanSum::<F>::default();
                for (i, l) in leaves.iter().enumerate() {
                    if i == e {
                        acc += KahanSum::<F>::default();
                    }
                    acc += *l;
                }
                if e == m {
                    acc += KahanSum::<F>::default();
                }
                s.calls += m as u64 + 1;
                judge_value::<F>("S-merge-empty", acc.value(), exact, sabs, n as u64, &|| d(&format!("split {sp:?} left fold with an empty register at {e}")), &|| case(&format!("split {sp:?} empty at {e}")), s);
            }
        }
    }
}

// ---------------- (W) whole-type windows ------------------------------------------------

fn window<F: K>(emin: i32, emax: i32, mant_bits: u32) -> Vec<F> {
    let mut v = vec![F::of(0.0)];
    for e in emin..=emax {
        for m in 0..(1u32 << mant_bits) {
            let x = (1.0 + m as f64 / (1u32 << mant_bits) as f64) * 2f64.powi(e);
            v.push(F::of(x));
            v.push(F::of(-x));
        }
    }
    v
}

fn judge_tuple<F: K>(vals: &[F], s: &mut Sink) {
    let n = vals.len() as u64;
    let exact: i128 = vals.iter().map(|x| fx(x.f())).sum();
    let sabs: i128 = vals.iter().map(|x| fx(x.f()).abs()).sum();
    let case = || json!({"check":"W","type":F::NAME,"vals":vals.iter().map(|x| x.f()).collect::<Vec<_>>()});
    let d = |feed: &str| format!("{} {:?} {feed}", F::NAME, vals.iter().map(|x| x.f()).collect::<Vec<_>>());
    let mut k = KahanSum::<F>::default();
    for &x in vals {
        k += x;
    }
    s.calls += n;
    judge_value::<F>("W", k.value(), exact, sabs, n, &|| d("value by value"), &case, s);
    // as two merged registers: {first} + {rest}
    let mut a = KahanSum::new(vals[0]);
    let mut b = KahanSum::<F>::default();
    for &x in &vals[1..] {
        b += x;
    }
    a += b;
    s.calls += n;
    judge_value::<F>("W-merge", a.value(), exact, sabs, n, &|| d("as {x0} += {rest}"), &case, s);
}

// ---------------- (L) long run-length patterns -------------------------------------------

fn balanced<F: K>(runs: &[(F, u64)], leaf: u64, calls: &mut u64) -> KahanSum<F> {
    // pairwise (binary counter) reduction over leaves of `leaf` consecutive elements
    let mut stack: Vec<(u32, KahanSum<F>)> = vec![];
    let mut cur = KahanSum::<F>::default();
    let mut in_leaf = 0u64;
    let mut push = |mut reg: KahanSum<F>, stack: &mut Vec<(u32, KahanSum<F>)>, calls: &mut u64| {
        let mut lvl = 0;
        while let Some(&(l, top)) = stack.last() {
            if l != lvl {
                break;
            }
            stack.pop();
            let mut t = top;
            t += reg;
            *calls += 1;
            reg = t;
            lvl += 1;
        }
        stack.push((lvl, reg));
    };
    for &(v, r) in runs {
        for _ in 0..r {
            cur += v;
            in_leaf += 1;
            if in_leaf == leaf {
                push(cur, &mut stack, calls);
                cur = KahanSum::<F>::default();
                in_leaf = 0;
            }
        }
    }
    if in_leaf > 0 {
        push(cur, &mut stack, calls);
    }
    let mut acc = KahanSum::<F>::default();
    while let Some((_, r)) = stack.pop() {
        // remaining partial trees: fold from the most recent (smallest) upwards
        let mut t = r;
        t += acc;
        *calls += 1;
        acc = t;
    }
    acc
}

fn judge_long<F: K>(runs_f: &[(f64, u64)], s: &mut Sink) {
    let runs: Vec<(F, u64)> = runs_f.iter().map(|&(v, r)| (F::of(if v.abs() == 1048576.0 { v.signum() * F::BIG } else { v }), r)).collect();
    let n: u64 = runs.iter().map(|r| r.1).sum();
    // magnitude shift: the smallest non-zero term is brought to about 2^-10
    let minv = runs.iter().map(|r| r.0.f().abs()).filter(|v| *v > 0.0).fold(f64::INFINITY, f64::min);
    let shift = if minv.is_finite() { (minv.log2().floor() as i32 + 10).clamp(-900, 900) } else { 0 };
    let shift = if (-12..=12).contains(&shift) { 0 } else { shift };
    let sc = 2f64.powi(-shift);
    let exact: i128 = runs.iter().map(|&(v, r)| fx(v.f() * sc) * r as i128).sum();
    let sabs: i128 = runs.iter().map(|&(v, r)| fx(v.f() * sc).abs() * r as i128).sum();
    let case = |feed: &str| json!({"check":"L","type":F::NAME,"runs":runs_f,"feed":feed});
    let d = |feed: &str| format!("{} runs {:?} (n = {n}) {feed}", F::NAME, runs.iter().map(|r| (r.0.f(), r.1)).collect::<Vec<_>>());
    // value by value
    let mut k = KahanSum::<F>::default();
    for &(v, r) in &runs {
        for _ in 0..r {
            k += v;
        }
    }
    s.calls += n;
    judge_value_s::<F>("L", k.value(), exact, sabs, n, shift, &|| d("value by value"), &|| case("values"), s);
    // left-fold chain of merges of registers of g consecutive elements
    for g in [1u64, 2, 3] {
        let mut acc = KahanSum::<F>::default();
        let mut cur = KahanSum::<F>::default();
        let mut c = 0;
        for &(v, r) in &runs {
            for _ in 0..r {
                cur += v;
                c += 1;
                if c == g {
                    acc += cur;
                    cur = KahanSum::<F>::default();
                    c = 0;
                }
            }
        }
        if c > 0 {
            acc += cur;
        }
        s.calls += n + n / g;
        judge_value_s::<F>("L-chain", acc.value(), exact, sabs, n, shift, &|| d(&format!("as a left-fold chain of {g}-element registers")), &|| case(&format!("chain{g}")), s);
    }
    // right-fold chain: {x0} += ({x1} += ({x2} += ...)): every merge has a multi-element,
    // compensation-carrying right-hand side
    if n <= 2_000_000 {
        let mut acc = KahanSum::<F>::default();
        let mut first = true;
        for &(v, r) in runs.iter().rev() {
            for _ in 0..r {
                let mut nw = KahanSum::<F>::default();
                nw += v;
                if !first {
                    nw += acc;
                }
                first = false;
                acc = nw;
            }
        }
        s.calls += 2 * n;
        judge_value_s::<F>("L-rchain", acc.value(), exact, sabs, n, shift, &|| d("as a right-fold chain of merges"), &|| case("rchain"), s);
    }
    // balanced reduction over 2-element leaves
    let mut calls = 0;
    let b = balanced::<F>(&runs, 2, &mut calls);
    s.calls += n + calls;
    judge_value_s::<F>("L-tree", b.value(), exact, sabs, n, shift, &|| d("as a balanced tree of 2-element registers"), &|| case("tree"), s);
}

/// (A) statistics built on the registers: mean * n and the variance inherit the bound
fn judge_stats<F: K>(runs_f: &[(f64, u64)], s: &mut Sink) {
    let runs: Vec<(F, u64)> = runs_f.iter().map(|&(v, r)| (F::of(if v.abs() == 1048576.0 { v.signum() * F::BIG } else { v }), r)).collect();
    let n: u64 = runs.iter().map(|r| r.1).sum();
    if n < 2 || (n as f64) * F::U > 0.125 {
        return;
    }
    let mut st = Arithmetic::<F>::new();
    for &(v, r) in &runs {
        for _ in 0..r {
            StatisticsOps::append(&mut st, v).unwrap();
        }
    }
    s.calls += n;
    s.evals += 1;
    // the same stream as merged Arithmetic states: right fold of single-observation states
    // (the running state is always the right-hand operand) and left fold of 3-element states
    let mut merged: Vec<(&str, Arithmetic<F>)> = vec![];
    if n <= 120_000 {
        let mut acc: Option<Arithmetic<F>> = None;
        for &(v, r) in runs.iter().rev() {
            for _ in 0..r {
                let mut one = Arithmetic::<F>::new();
                StatisticsOps::append(&mut one, v).unwrap();
                acc = Some(match acc {
                    None => one,
                    Some(a) => one + a,
                });
            }
        }
        merged.push(("right fold of single-observation states", acc.unwrap()));
        let mut acc = Arithmetic::<F>::new();
        let mut cur = Arithmetic::<F>::new();
        let mut c = 0;
        for &(v, r) in &runs {
            for _ in 0..r {
                StatisticsOps::append(&mut cur, v).unwrap();
                c += 1;
                if c == 3 {
                    acc += cur;
                    cur = Arithmetic::<F>::new();
                    c = 0;
                }
            }
        }
        acc += cur;
        merged.push(("left fold of 3-element states", acc));
        s.calls += 3 * n;
    }
    let ex = mc::exact::exact_stats_runs(&runs.iter().map(|r| (r.0.f(), r.1)).collect::<Vec<_>>());
    let sum_sq = mc::exact::to_f64(&ex.sum_sq);
    if !sum_sq.is_finite() || !F::of(sum_sq).f().is_finite() {
        s.skipped += 1;
        return;
    }
    let case = || json!({"check":"A","type":F::NAME,"runs":runs_f});
    let mean = st.sample_mean().f();
    let tol_mean = ((C * F::U + C * n as f64 * F::U * F::U) * ex.sum_abs_f() + 2.0 * F::U * ex.sum_abs_f()) / n as f64;
    let em = (mean - ex.mean_f()).abs();
    s.max(&format!("mean_err_over_tol[{}]", F::NAME), em / tol_mean.max(f64::MIN_POSITIVE), || format!("{runs_f:?}"));
    if !(em <= tol_mean) {
        s.violation(format!("A/{}/mean-error-exceeds-bound", F::NAME), format!("{} runs {runs_f:?}: sample_mean {mean:?}, exact {:?}, error {em:.3e} > {tol_mean:.3e}", F::NAME, ex.mean_f()), case());
    }
    for (name, m) in &merged {
        let (mm, mv) = (m.sample_mean().f(), m.sample_variance().f());
        if m.sample_count() as u64 != n {
            s.violation(format!("A/{}/merged-count", F::NAME), format!("{name}: count {} != {n}", m.sample_count()), case());
        }
        let em = (mm - ex.mean_f()).abs();
        if !(em <= tol_mean) {
            s.violation(format!("A/{}/merged-mean-error-exceeds-bound", F::NAME), format!("{} runs {runs_f:?} as {name}: sample_mean {mm:?}, exact {:?}, error {em:.3e} > {tol_mean:.3e}", F::NAME, ex.mean_f()), case());
        }
        let tol_var_m = (3.0 * C * F::U + 3.0 * C * n as f64 * F::U * F::U) * sum_sq / (n - 1) as f64;
        let ev = (mv - ex.var_f()).abs();
        if !(ev <= tol_var_m) {
            s.violation(format!("A/{}/merged-variance-error-exceeds-bound", F::NAME), format!("{} runs {runs_f:?} as {name}: sample_variance {mv:?}, exact {:?}, error {ev:.3e} > {tol_var_m:.3e}", F::NAME, ex.var_f()), case());
        }
    }
    // variance: sum of squares inherits the bound (absolute error relative to sum x^2)
    let var = st.sample_variance().f();
    let tol_var = (3.0 * C * F::U + 3.0 * C * n as f64 * F::U * F::U) * sum_sq / (n - 1) as f64;
    let ev = (var - ex.var_f()).abs();
    s.max(&format!("var_err_over_tol[{}]", F::NAME), ev / tol_var.max(f64::MIN_POSITIVE), || format!("{runs_f:?}"));
    if !(ev <= tol_var) {
        s.violation(format!("A/{}/variance-error-exceeds-bound", F::NAME), format!("{} runs {runs_f:?}: sample_variance {var:?}, exact {:?}, error {ev:.3e} > {tol_var:.3e} (= {} u sum x^2/(n-1))", F::NAME, ex.var_f(), 3.0 * C), case());
    }
}

fn long_patterns(tier: Tier, half: bool) -> Vec<Vec<(f64, u64)>> {
    let vals = [1.0, 0.1, 1.1, 1e-3, 1048576.0, -1048576.0, -1.0, 3.0];
    let reps: Vec<u64> = if half { vec![1, 7, 30, 200] } else { tier.pick(vec![1, 10, 1_000, 100_000], vec![1, 10, 1_000, 100_000, 10_000_000]) };
    let cap: u64 = if half { 250 } else { tier.pick(210_000, 10_300_000) };
    let mut v: Vec<Vec<(f64, u64)>> = vec![];
    for &a in &vals {
        for &ra in &reps {
            v.push(vec![(a, ra)]);
            for &b in &vals {
                for &rb in &reps {
                    if ra + rb <= cap {
                        v.push(vec![(a, ra), (b, rb)]);
                    }
                }
            }
        }
    }
    let v3 = [0.1, 1048576.0, -1048576.0, 1.0];
    let r3: Vec<u64> = if half { vec![1, 30, 100] } else { tier.pick(vec![1, 1_000, 100_000], vec![1, 1_000, 100_000, 5_000_000]) };
    for &a in &v3 {
        for &ra in &r3 {
            for &b in &v3 {
                for &rb in &r3 {
                    for &c in &v3 {
                        for &rc in &r3 {
                            if ra + rb + rc <= cap {
                                v.push(vec![(a, ra), (b, rb), (c, rc)]);
                            }
                        }
                    }
                }
            }
        }
    }
    v
}

enum Job {
    Short(usize, u64, u8),
    Long(Vec<(f64, u64)>, u8),
}

fn dispatch_short(len: usize, idx: u64, ty: u8, tc: &[Vec<Tree>], s: &mut Sink) {
    let ix = nth_sequence(8, len, idx);
    match ty {
        0 => judge_short::<f64>(&ix, &alphabet::<f64>(), tc, s),
        1 => judge_short::<f32>(&ix, &alphabet::<f32>(), tc, s),
        2 => judge_short::<f16>(&ix, &alphabet::<f16>(), tc, s),
        _ => judge_short::<bf16>(&ix, &alphabet::<bf16>(), tc, s),
    }
}

fn run(tier: Tier) -> Sink {
    let tc: Vec<Vec<Tree>> = (0..=4).map(|m| if m == 0 { vec![] } else { trees(0, m) }).collect();
    let mut jobs = vec![];
    for ty in 0..4u8 {
        for len in 1..=tier.pick(5, 6) {
            // half types: the merge-tree enumeration at full length only for f64 / f32
            if ty >= 2 && len > 5 {
                continue;
            }
            for idx in 0..8u64.pow(len as u32) {
                jobs.push(Job::Short(len, idx, ty));
            }
        }
    }
    for p in long_patterns(tier, false) {
        jobs.push(Job::Long(p.clone(), 0));
        jobs.push(Job::Long(p, 1));
    }
    for p in long_patterns(tier, true) {
        jobs.push(Job::Long(p.clone(), 2));
        jobs.push(Job::Long(p, 3));
    }
    // the same stream shapes at small and large magnitude (exact power-of-two scalings):
    // the bound is relative, so nothing may depend on the absolute size of the terms
    for p in long_patterns(Tier::Quick, false) {
        let n: u64 = p.iter().map(|r| r.1).sum();
        if n < 1_000 || n > 120_000 || p.iter().any(|r| r.0.abs() >= 1048576.0) {
            continue;
        }
        for (ty, e) in [(0u8, -40), (0, 30), (1, -30), (1, 20)] {
            jobs.push(Job::Long(p.iter().map(|&(v, r)| (v * 2f64.powi(e), r)).collect(), ty));
        }
        // extreme magnitudes, sums only (squares of such terms legitimately leave the type, so
        // the statistics are not judged here): a sum is as well defined at 2^800 as at 1
        for (ty, e) in [(4u8, -800), (4, 800), (5, -80), (5, 80)] {
            jobs.push(Job::Long(p.iter().map(|&(v, r)| (v * 2f64.powi(e), r)).collect(), ty));
        }
    }
    // longest first
    jobs.sort_by_key(|j| match j {
        Job::Long(p, _) => std::cmp::Reverse(p.iter().map(|r| r.1).sum::<u64>()),
        Job::Short(..) => std::cmp::Reverse(0),
    });
    let t0 = std::time::Instant::now();
    let mut s = par_judge(&jobs, |j, s| match j {
        Job::Short(len, idx, ty) => dispatch_short(*len, *idx, *ty, &tc, s),
        Job::Long(p, 0) => {
            judge_long::<f64>(p, s);
            judge_stats::<f64>(p, s)
        }
        Job::Long(p, 1) => {
            judge_long::<f32>(p, s);
            judge_stats::<f32>(p, s)
        }
        // (the statistics are claimed for f32 / f64 only: in the half types an equally valid
        // variance formula may overflow an intermediate, e.g. (sum x)^2 > 65504)
        Job::Long(p, 4) => judge_long::<f64>(p, s),
        Job::Long(p, 5) => judge_long::<f32>(p, s),
        Job::Long(p, 2) => judge_long::<f16>(p, s),
        Job::Long(p, _) => judge_long::<bf16>(p, s),
    });
    let _ = t0;
    let t1 = std::time::Instant::now();
    // (W) whole-type windows: bf16 all pairs (quick) / all triples (thorough); f16 pairs
    let wb = window::<bf16>(-3, 3, 7);
    let nb = wb.len() as u64;
    let w = match tier {
        Tier::Quick => par_range(0, nb, |i, s| {
            for j in 0..nb as usize {
                judge_tuple::<bf16>(&[wb[i as usize], wb[j]], s);
            }
        }),
        Tier::Thorough => par_range(0, nb * nb, |ij, s| {
            let (i, j) = ((ij / nb) as usize, (ij % nb) as usize);
            for k in 0..nb as usize {
                judge_tuple::<bf16>(&[wb[i], wb[j], wb[k]], s);
            }
        }),
    };
    s = s.merge(w);
    let _ = t1;
    let t2 = std::time::Instant::now();
    let wf = window::<f16>(tier.pick(-1, -3), tier.pick(1, 3), 10);
    let nf = wf.len() as u64;
    let w2 = par_range(0, nf, |i, s| {
        for j in 0..nf as usize {
            judge_tuple::<f16>(&[wf[i as usize], wf[j]], s);
        }
    });
    s = s.merge(w2);
    let _ = t2;
    s.count("window_values_bf16", nb);
    s.count("window_values_f16", nf);
    s
}

fn replay_case(case: &Value, s: &mut Sink) {
    let ty = match case["type"].as_str().unwrap_or("") {
        "f64" => 0,
        "f32" => 1,
        "f16" => 2,
        _ => 3,
    };
    match case["check"].as_str().unwrap_or("") {
        "S" => {
            let idx: Vec<usize> = serde_json::from_value(case["idx"].clone()).unwrap();
            let tc: Vec<Vec<Tree>> = (0..=4).map(|m| if m == 0 { vec![] } else { trees(0, m) }).collect();
            let i = idx.iter().fold(0u64, |a, &d| a * 8 + d as u64);
            dispatch_short(idx.len(), i, ty, &tc, s);
        }
        "W" => {
            let v: Vec<f64> = serde_json::from_value(case["vals"].clone()).unwrap();
            if ty == 2 {
                judge_tuple::<f16>(&v.iter().map(|x| f16::from_f64(*x)).collect::<Vec<_>>(), s)
            } else {
                judge_tuple::<bf16>(&v.iter().map(|x| bf16::from_f64(*x)).collect::<Vec<_>>(), s)
            }
        }
        _ => {
            let runs: Vec<(f64, u64)> = serde_json::from_value(case["runs"].clone()).unwrap();
            match ty {
                0 => {
                    judge_long::<f64>(&runs, s);
                    judge_stats::<f64>(&runs, s)
                }
                1 => {
                    judge_long::<f32>(&runs, s);
                    judge_stats::<f32>(&runs, s)
                }
                2 => judge_long::<f16>(&runs, s),
                _ => judge_long::<bf16>(&runs, s),
            }
        }
    }
}

fn main() {
    let (cmd, tier) = mc::parse_args();
    if let Cmd::Replay(p) = cmd {
        std::process::exit(mc::report::replay_main(P, &p, replay_case));
    }
    let mut rep = Report::new(P, tier);
    let mut s = run(tier);
    s.sample(json!({"check":"S","type":"f32","values":"[2^20, 0.1, -2^20, 1+2u, u]","feeds":["value by value","new(x0) + ...","every split into <=4 registers x every binary tree, += and +","empty register at every position"]}));
    s.sample(json!({"check":"W","type":"bf16","vals":[1.0078125,-0.99609375,7.96875],"what":"one of all triples of the exponent window [-3,3]"}));
    s.sample(json!({"check":"L","type":"f32","runs":[[0.1,100000],[1048576.0,1],[-1048576.0,1]],"feeds":["value by value","left-fold chain of 1/2/3-element registers","balanced tree of 2-element registers"],"note":"naive summation is off by ~1e3 u*sum|x| here"}));
    rep.rule = format!("S: every sequence of length 1..{} over {{1,1+2u,u,0.1,3,2^20,-2^20,-1}} in f64,f32 (f16,bf16: ..5) x feeds x every contiguous split into <=4 registers x every binary merge tree x (+=,+) x empty registers; W: bf16 all {} of the 1793 window values (exponents -3..3), f16 all pairs of the {} window; L: 1-,2-,3-run patterns with run lengths up to {} (f64,f32) fed value by value / as merge chains / as a balanced reduction, short runs for f16,bf16; A: mean and variance of the same streams; distinct by (sub-check, type, error ratio bucket)", tier.pick(5, 6), tier.pick("pairs", "triples"), tier.pick("exponent -1..1", "exponent -3..3"), tier.pick("1e5", "1e7"));
    rep.assume(&format!("bound: |value - S| <= ({C} u + {C} n u^2) sum|x| with exact integer sums; observed maxima of error/(u sum|x|) per sub-check are in coverage.maxima"));
    rep.assume("sequences whose partial sums overflow the type, or with n*u > 1/8 (half types), are counted as skipped");
    rep.require(s.distinct() >= 30, "fewer than 30 distinct classes: vacuous");
    std::process::exit(rep.finish(s));
}
