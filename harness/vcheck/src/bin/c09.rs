//! C09 — incremental, chunked, merged and parallel accumulation equal the batch result.
//! Explicit-state BFS over pools of real registers for every state type (histories of
//! new / append / extend / from_iter / clone / + / += / query); the schedule dimension is
//! explored by the loom harness (`vloom`, run by checks/c09.sh).

use mc::{json, Cmd, Report, Sink, Tier, Value};
use stats_ci::comparison::{Paired, Unpaired};
use stats_ci::mean::{Arithmetic, Geometric, Harmonic};
use stats_ci::{proportion, quantile};
use vcheck::models::Acc;
use vcheck::pool::{replay, search, Act, Params, CHUNK_ALPHA};

const P: &str = "C09";

fn run_type<T: Acc>(tier: Tier, cheap: bool, s: &mut Sink, totals: &mut (u64, u64), notes: &mut Vec<Value>) {
    let prm = Params {
        max_regs: 3,
        max_obs: 6,
        depth: if cheap { tier.pick(5, 8) } else { tier.pick(4, 5) },
        max_states: tier.pick(1_000_000, 20_000_000),
        chunk_alpha: CHUNK_ALPHA,
    };
    let t0 = std::time::Instant::now();
    let st = search::<T>(&prm, s);
    totals.0 += st.states;
    totals.1 += st.transitions;
    notes.push(json!({"type":T::NAME,"states":st.states,"transitions":st.transitions,"depth_completed":st.max_depth,"per_depth":st.per_depth,"capped":st.capped,"max_regs":prm.max_regs,"max_obs_per_register":prm.max_obs,"secs":t0.elapsed().as_secs_f64()}));
    if st.capped {
        s.count("capped-searches", 1);
    }
}

/// long histories: the same 20 000 (f32: also 200 000) observations delivered by from_iter,
/// one by one, in chunks, as a left fold / right fold / balanced reduction of 100-element
/// registers; every resulting register must satisfy the invariant, and the one-shot `ci`
/// entry points must agree with the batch register
fn long_history<T: Acc>(n: usize, s: &mut Sink) {
    long_history_scaled::<T>(n, 0, s)
}

/// the same history with every observation multiplied by 2^e (exact): partial states whose
/// sums are far below (or above) 1 must merge exactly like any others
fn long_history_scaled<T: Acc>(n: usize, e: i32, s: &mut Sink) {
    use vcheck::models::Obs;
    let k = 2f64.powi(e);
    let a: Vec<Obs> = T::alphabet()
        .iter()
        .map(|o| match *o {
            Obs::V(x) => Obs::V(x * k),
            Obs::P(x, y) => Obs::P(x * k, y * k),
            Obs::A(x) => Obs::A(x * k),
            Obs::B(x) => Obs::B(x * k),
            o => o,
        })
        .collect();
    let model: Vec<Obs> = (0..n).map(|i| a[(i * 7 + i / 3) % a.len()]).collect();
    let case = |shape: &str| json!({"check":"long","type":T::NAME,"n":n,"scale_exponent":e,"shape":shape});
    let parts: Vec<T> = model.chunks(100).map(|c| T::from_iter(c)).collect();
    let mut shapes: Vec<(&str, T)> = vec![];
    shapes.push(("from_iter", T::from_iter(&model)));
    let mut r = T::new();
    for o in &model {
        r.append(*o);
    }
    shapes.push(("append one by one", r));
    let mut r = T::new();
    for c in model.chunks(999) {
        r.extend(c);
    }
    shapes.push(("extend in chunks of 999", r));
    let mut r = T::new();
    for p in &parts {
        r.add_assign(p);
    }
    shapes.push(("left fold of 100-element registers (+=)", r));
    let mut r = T::new();
    for p in parts.iter().rev() {
        r = p.add(&r);
    }
    shapes.push(("right fold of 100-element registers (+)", r));
    let mut level: Vec<T> = parts.clone();
    while level.len() > 1 {
        level = level.chunks(2).map(|c| if c.len() == 2 { c[0].add(&c[1]) } else { c[0].clone() }).collect();
    }
    shapes.push(("balanced reduction", level.pop().unwrap()));
    s.calls += 3 * n as u64;
    for (name, reg) in &shapes {
        s.evals += 1;
        reg.check(&model, &|| case(name), s);
        s.outcome(&(T::NAME, "long", *name));
    }
    T::check_oneshot(&model, &|| case("one-shot ci"), s);
}

/// bulk entry points at block-boundary sizes: 2^k - 1, 2^k, 2^k + 1 observations in one
/// from_iter / one extend (and split over two extends at the boundary)
fn boundary_sizes<T: Acc>(max_pow: u32, s: &mut Sink) {
    let a = T::alphabet();
    for k in 1..=max_pow {
        for n in [(1usize << k) - 1, 1 << k, (1 << k) + 1] {
            if n < 2 {
                continue;
            }
            let model: Vec<vcheck::models::Obs> = (0..n).map(|i| a[(i * 5 + i / 7) % a.len()]).collect();
            let case = |shape: &str| json!({"check":"boundary","type":T::NAME,"n":n,"shape":shape});
            s.evals += 3;
            s.calls += 3;
            let r1 = T::from_iter(&model);
            let mut r2 = T::new();
            r2.extend(&model);
            let mut r3 = T::new();
            r3.extend(&model[..n / 2]);
            r3.extend(&model[n / 2..]);
            // cheap observers first (count and the first two queries), full invariant on r1
            let (q1, q2, q3) = (r1.queries(), r2.queries(), r3.queries());
            if q1[0] != q2[0] || q1[0] != q3[0] {
                s.violation(format!("{}/bulk-entry-points-disagree-on-count", T::NAME), format!("n={n}: from_iter {:?}, extend {:?}, extend x2 {:?}", q1[0], q2[0], q3[0]), case("counts"));
            }
            r1.check(&model, &|| case("from_iter"), s);
            r2.check(&model, &|| case("extend"), s);
            s.outcome(&(T::NAME, "boundary", k));
        }
    }
}

fn replay_case(case: &Value, s: &mut Sink) {
    if case["check"] == "boundary" {
        match case["type"].as_str().unwrap_or("") {
            "Arithmetic<f64>" => boundary_sizes::<Arithmetic<f64>>(18, s),
            "Arithmetic<f32>" => boundary_sizes::<Arithmetic<f32>>(18, s),
            "Geometric<f64>" => boundary_sizes::<Geometric<f64>>(17, s),
            "Harmonic<f32>" => boundary_sizes::<Harmonic<f32>>(17, s),
            "Paired<f64>" => boundary_sizes::<Paired<f64>>(17, s),
            "Unpaired<f64>" => boundary_sizes::<Unpaired<f64>>(17, s),
            _ => boundary_sizes::<proportion::Stats>(18, s),
        }
        return;
    }
    if case["check"] == "long" {
        let n = case["n"].as_u64().unwrap() as usize;
        let e = case["scale_exponent"].as_i64().unwrap_or(0) as i32;
        match case["type"].as_str().unwrap_or("") {
            "Arithmetic<f64>" => long_history_scaled::<Arithmetic<f64>>(n, e, s),
            "Arithmetic<f32>" => long_history_scaled::<Arithmetic<f32>>(n, e, s),
            "Geometric<f64>" => long_history_scaled::<Geometric<f64>>(n, e, s),
            "Harmonic<f64>" => long_history_scaled::<Harmonic<f64>>(n, e, s),
            "Geometric<f32>" => long_history_scaled::<Geometric<f32>>(n, e, s),
            "Harmonic<f32>" => long_history_scaled::<Harmonic<f32>>(n, e, s),
            "Paired<f64>" => long_history_scaled::<Paired<f64>>(n, e, s),
            "Paired<f32>" => long_history_scaled::<Paired<f32>>(n, e, s),
            "Unpaired<f64>" => long_history_scaled::<Unpaired<f64>>(n, e, s),
            "Unpaired<f32>" => long_history_scaled::<Unpaired<f32>>(n, e, s),
            "proportion::Stats" => long_history_scaled::<proportion::Stats>(n, e, s),
            _ => long_history_scaled::<quantile::Stats>(n, e, s),
        }
        return;
    }
    let hist: Vec<Act> = serde_json::from_value(case["history"].clone()).unwrap();
    let mr = case["max_regs"].as_u64().unwrap_or(3) as usize;
    match case["type"].as_str().unwrap_or("") {
        "Arithmetic<f64>" => replay::<Arithmetic<f64>>(&hist, mr, s),
        "Arithmetic<f32>" => replay::<Arithmetic<f32>>(&hist, mr, s),
        "Geometric<f64>" => replay::<Geometric<f64>>(&hist, mr, s),
        "Harmonic<f64>" => replay::<Harmonic<f64>>(&hist, mr, s),
        "Geometric<f32>" => replay::<Geometric<f32>>(&hist, mr, s),
        "Harmonic<f32>" => replay::<Harmonic<f32>>(&hist, mr, s),
        "Paired<f64>" => replay::<Paired<f64>>(&hist, mr, s),
        "Paired<f32>" => replay::<Paired<f32>>(&hist, mr, s),
        "Unpaired<f64>" => replay::<Unpaired<f64>>(&hist, mr, s),
        "Unpaired<f32>" => replay::<Unpaired<f32>>(&hist, mr, s),
        "proportion::Stats" => replay::<proportion::Stats>(&hist, mr, s),
        "quantile::Stats" => replay::<quantile::Stats>(&hist, mr, s),
        other => eprintln!("unknown type {other}"),
    }
}

fn main() {
    let (cmd, tier) = mc::parse_args();
    mc::quiet_panics();
    if let Cmd::Replay(p) = cmd {
        std::process::exit(mc::report::replay_main(P, &p, replay_case));
    }
    let mut rep = Report::new(P, tier);
    let mut s = Sink::new();
    let mut totals = (0, 0);
    let mut notes = vec![];
    run_type::<Arithmetic<f64>>(tier, false, &mut s, &mut totals, &mut notes);
    run_type::<Arithmetic<f32>>(tier, false, &mut s, &mut totals, &mut notes);
    run_type::<Geometric<f64>>(tier, false, &mut s, &mut totals, &mut notes);
    run_type::<Harmonic<f64>>(tier, false, &mut s, &mut totals, &mut notes);
    run_type::<Paired<f64>>(tier, false, &mut s, &mut totals, &mut notes);
    run_type::<Unpaired<f64>>(tier, false, &mut s, &mut totals, &mut notes);
    if tier == Tier::Thorough {
        run_type::<Geometric<f32>>(tier, false, &mut s, &mut totals, &mut notes);
        run_type::<Harmonic<f32>>(tier, false, &mut s, &mut totals, &mut notes);
        run_type::<Paired<f32>>(tier, false, &mut s, &mut totals, &mut notes);
        run_type::<Unpaired<f32>>(tier, false, &mut s, &mut totals, &mut notes);
    }
    run_type::<proportion::Stats>(tier, true, &mut s, &mut totals, &mut notes);
    run_type::<quantile::Stats>(tier, true, &mut s, &mut totals, &mut notes);
    // long histories (sequential per type; the types run in parallel)
    {
        use rayon::prelude::*;
        let jobs: Vec<Box<dyn Fn(&mut Sink) + Send + Sync>> = vec![
            Box::new(|s| long_history::<Arithmetic<f64>>(20_000, s)),
            Box::new(|s| long_history::<Arithmetic<f32>>(20_000, s)),
            Box::new(|s| long_history::<Arithmetic<f32>>(200_000, s)),
            Box::new(|s| long_history::<Geometric<f64>>(20_000, s)),
            Box::new(|s| long_history::<Harmonic<f64>>(20_000, s)),
            Box::new(|s| long_history::<Geometric<f32>>(100_000, s)),
            Box::new(|s| long_history::<Harmonic<f32>>(100_000, s)),
            Box::new(|s| long_history_scaled::<Arithmetic<f64>>(20_000, -60, s)),
            Box::new(|s| long_history_scaled::<Arithmetic<f64>>(20_000, 60, s)),
            Box::new(|s| long_history_scaled::<Arithmetic<f32>>(20_000, -30, s)),
            Box::new(|s| long_history_scaled::<Arithmetic<f32>>(20_000, 30, s)),
            Box::new(|s| long_history_scaled::<Paired<f64>>(20_000, -60, s)),
            Box::new(|s| long_history_scaled::<Unpaired<f64>>(20_000, -60, s)),
            Box::new(|s| long_history_scaled::<Unpaired<f32>>(20_000, -20, s)),
            Box::new(|s| long_history::<Paired<f64>>(20_000, s)),
            Box::new(|s| long_history::<Paired<f32>>(100_000, s)),
            Box::new(|s| long_history::<Unpaired<f64>>(20_000, s)),
            Box::new(|s| long_history::<Unpaired<f32>>(100_000, s)),
            Box::new(|s| long_history::<proportion::Stats>(100_000, s)),
            Box::new(|s| long_history::<quantile::Stats>(100_000, s)),
            Box::new(|s| boundary_sizes::<Arithmetic<f64>>(18, s)),
            Box::new(|s| boundary_sizes::<Arithmetic<f32>>(18, s)),
            Box::new(|s| boundary_sizes::<Geometric<f64>>(17, s)),
            Box::new(|s| boundary_sizes::<Harmonic<f32>>(17, s)),
            Box::new(|s| boundary_sizes::<Paired<f64>>(17, s)),
            Box::new(|s| boundary_sizes::<Unpaired<f64>>(17, s)),
            Box::new(|s| boundary_sizes::<proportion::Stats>(18, s)),
        ];
        let r = jobs
            .par_iter()
            .map(|j| {
                let mut s = Sink::new();
                j(&mut s);
                s
            })
            .reduce(Sink::new, Sink::merge);
        s = s.merge(r);
    }
    rep.states = Some(totals.0);
    rep.exhaustive = s.counter("capped-searches") == 0;
    rep.note("searches", json!(notes));
    // merge the loom evidence written by the schedule harness (checks/c09.sh runs it first)
    let loom_path = mc::report::verif_root().join("evidence").join("C09.loom.json");
    match std::fs::read_to_string(&loom_path).ok().and_then(|t| serde_json::from_str::<Value>(&t).ok()) {
        Some(v) => rep.note("schedules_loom", v),
        None => rep.note("schedules_loom", json!("not run in this invocation (./run.sh C09 runs it; see checks/c09.sh)")),
    }
    s.sample(json!({"type":"Arithmetic<f64>","history":["FromIter([0.1, 1048576.0])","New","Append(1, -2.5)","AddAssign(1, 0)"],"invariant":"register 1: count 3; mean/ci equal the exact statistics and the batch from_iter of {-2.5, 0.1, 1048576} within tolerance; queries pure"}));
    s.sample(json!({"type":"Unpaired<f64>","history":["FromIter([A(0.1), B(1048576.0)])","Clone(0)","Add(0, 1)"],"invariant":"side a holds exactly the A observations, side b the B observations"}));
    s.sample(json!({"type":"proportion::Stats","history":["Extend(0,[true,false])","AddAssign(0,0)"],"invariant":"== Stats::new(4, 2)"}));
    rep.rule = format!("BFS over pools of <=3 real registers, <=6 observations per register, depth {} ({} for proportion/quantile Stats), for Arithmetic<f64,f32>, Geometric, Harmonic, Paired, Unpaired{}, proportion::Stats, quantile::Stats; actions New, Append(r,v), Extend(r,chunk), FromIter(chunk), Clone(r), Add(i,j), AddAssign(i,j) incl. i=j, chunks = empty, singletons, all pairs over 3 values, one triple; every new state: each register against its model (count, mean, CIs vs exact statistics and vs one batch from_iter of the sorted model), queries issued twice and Debug rendering unchanged; plus long histories (2e4..2e5 observations per type delivered by from_iter / one by one / chunked extend / left fold / right fold / balanced reduction of 100-element registers, and the one-shot ci entry points) and the bulk entry points (from_iter, extend, extend x2) at every size 2^k-1, 2^k, 2^k+1 up to 2^17..2^18; distinct by (type, model size, observers, non-zero compensation)", tier.pick(4, 5), tier.pick(5, 8), tier.pick("", " (also f32)"));
    let sr_path = mc::report::verif_root().join("evidence").join("C09.stateright.json");
    match std::fs::read_to_string(&sr_path).ok().and_then(|t| serde_json::from_str::<Value>(&t).ok()) {
        Some(v) => rep.note("second_engine_stateright", v),
        None => rep.note("second_engine_stateright", json!("not run in this invocation (./run.sh C09 runs it; see checks/c09.sh)")),
    }
    rep.assume("interleavings inside a stats-ci call are not explored: the crate has no shared mutable state (forbid(unsafe_code), no interior mutability, one immutable lazy_static); schedules are explored at the caller level by the loom harness");
    rep.assume("the Debug rendering (all private fields, round-trip float formatting) is the injective state key");
    // (only meaningful while the Debug rendering exposes the compensation term by that name)
    rep.require(s.counter("states-exposing-a-compensation-term") == 0 || s.counter("states-with-nonzero-compensation") > 0, "no state with a non-zero compensation term was reached");
    rep.require(s.distinct() >= 30, "fewer than 30 distinct classes: vacuous");
    std::process::exit(rep.finish(s));
}
