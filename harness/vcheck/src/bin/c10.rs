//! C10 — confidence kind and level act coherently on every interval producer.
//! For every producer and enumerated input: the whole table of results over the level
//! grid x 3 kinds is computed with the real code and checked for (i) one-sided(L) vs
//! two-sided(2L-1) coincidence, (ii) nesting in the level (all ordered pairs),
//! (iii) containment of the point estimate, (iv) kind / shape of the result.

use mc::explore::nth_sequence;
use mc::{json, par_judge, Cmd, Kind, Report, Sink, Tier, Value, KINDS};
use stats_ci::comparison::{Paired, Unpaired};
use stats_ci::mean::{Arithmetic, Geometric, Harmonic};
use stats_ci::{proportion, quantile, Interval, StatisticsOps};
use vcheck::{conf, shape, Fl};

const P: &str = "C10";

/// a producer evaluated at one input: returns (kind-of-result, low, high) or None (error)
type Call<'a> = &'a dyn Fn(Kind, f64) -> Option<(Kind, f64, f64)>;

struct Spec {
    producer: &'static str,
    /// float unit roundoff for slack (0 for exact/integer producers)
    u: f64,
    /// integer ranks: exact comparisons, estimate within one position
    ranks: bool,
    /// natural far ends for one-sided proportion requests
    far_ends: Option<(f64, f64)>,
    /// point estimate
    estimate: f64,
    /// relative noise of the critical value between two calls whose quantile differs by
    /// an ulp (the t quantile is refined to a 1e-12 residual: see DESIGN C10)
    crit_noise: f64,
}

fn judge_family(sp: &Spec, call: Call, levels: &[f64], descr: &dyn Fn() -> String, case: &dyn Fn(Kind, f64, &str) -> Value, s: &mut Sink) {
    // table[kind][level]
    let mut tab: Vec<Vec<Option<(Kind, f64, f64)>>> = vec![];
    let mut any_err = false;
    for kind in KINDS {
        let mut row = vec![];
        for &l in levels {
            s.calls += 1;
            let r = call(kind, l);
            any_err |= r.is_none();
            row.push(r);
        }
        tab.push(row);
    }
    if any_err {
        // inadmissible input for this producer (or outside its claimed domain) at some
        // confidence: the relations are about admissible inputs; admissibility must not
        // depend on the confidence
        let all_err = tab.iter().flatten().all(|r| r.is_none());
        if !all_err && sp.producer != "Harmonic" {
            s.violation(format!("{}/admissibility-depends-on-confidence", sp.producer), descr(), case(Kind::Two, 0.5, "admissibility"));
        }
        s.skipped += 1;
        return;
    }
    let slack = |x: f64| 2.0 * sp.u * x.abs();
    for (ki, kind) in KINDS.iter().copied().enumerate() {
        for (li, &l) in levels.iter().enumerate() {
            s.evals += 1;
            let (rk, lo, hi) = tab[ki][li].unwrap();
            s.outcome(&(sp.producer, kind, rk, l > 0.5));
            // (iv) kind / shape
            let shape_ok = match (kind, sp.far_ends) {
                // (bounds may overflow to +-inf / underflow to 0 in the float type, e.g. exp of a
                // wide log-space interval in f32: the kind is what is judged here)
                (Kind::Two, _) => rk == Kind::Two && !lo.is_nan() && !hi.is_nan(),
                (Kind::Upper, None) => rk == Kind::Upper && !lo.is_nan() && hi == f64::INFINITY,
                (Kind::Lower, None) => rk == Kind::Lower && !hi.is_nan() && lo == f64::NEG_INFINITY,
                (Kind::Upper, Some((_, top))) => rk == Kind::Two && hi == top && lo.is_finite(),
                (Kind::Lower, Some((bottom, _))) => rk == Kind::Two && lo == bottom && hi.is_finite(),
            };
            if !shape_ok {
                s.violation(format!("{}/kind-mismatch/{}", sp.producer, kind.name()), format!("{}: {} {l} returned {:?} [{lo}, {hi}]", descr(), kind.name(), rk), case(kind, l, "kind"));
                continue;
            }
            if lo > hi {
                s.violation(format!("{}/inverted/{}", sp.producer, kind.name()), format!("{}: {} {l} returned [{lo}, {hi}]", descr(), kind.name()), case(kind, l, "inverted"));
            }
            // (iii) point estimate inside
            if kind == Kind::Two || l >= 0.5 {
                let e = sp.estimate;
                let (a, b) = if sp.ranks { (lo - 1.0, hi + 1.0) } else { (lo - 2.0 * slack(lo) - slack(e), hi + 2.0 * slack(hi) + slack(e)) };
                let inside = match kind {
                    Kind::Two => a <= e && e <= b,
                    Kind::Upper => a <= e,
                    Kind::Lower => e <= b,
                };
                if !inside {
                    s.violation(format!("{}/estimate-outside/{}", sp.producer, kind.name()), format!("{}: {} {l} = [{lo}, {hi}] does not contain the point estimate {e}", descr(), kind.name()), case(kind, l, "estimate"));
                }
            }
            // (ii) nesting: every higher level includes this interval
            for (lj, &l2) in levels.iter().enumerate().skip(li + 1) {
                let (_, lo2, hi2) = tab[ki][lj].unwrap();
                let ok_lo = kind == Kind::Lower || lo2 <= lo + 2.0 * slack(lo);
                let ok_hi = kind == Kind::Upper || hi <= hi2 + 2.0 * slack(hi);
                if !(ok_lo && ok_hi) {
                    s.violation(format!("{}/raising-the-level-shrinks/{}", sp.producer, kind.name()), format!("{}: {} level {l} = [{lo}, {hi}] is not inside level {l2} = [{lo2}, {hi2}]", descr(), kind.name()), case(kind, l, "nesting"));
                }
            }
            // (i) one-sided at L > 1/2 coincides with two-sided at 2L-1
            if kind != Kind::Two && l > 0.5 {
                s.calls += 1;
                let l2 = 2.0 * l - 1.0;
                if !(l2 > 0.0 && l2 < 1.0) {
                    continue;
                }
                let Some((_, tlo, thi)) = call(Kind::Two, l2) else {
                    s.violation(format!("{}/two-sided-at-2L-1-rejected", sp.producer), format!("{} at two-sided {l2}", descr()), case(kind, l, "coincide"));
                    continue;
                };
                let (one, two) = if kind == Kind::Upper { (lo, tlo) } else { (hi, thi) };
                let dyadic = mc::is_dyadic_level(l);
                let ok = if sp.ranks {
                    if dyadic {
                        one == two
                    } else {
                        (one - two).abs() <= 1.0
                    }
                } else if dyadic {
                    one.to_bits() == two.to_bits() || one == two
                } else {
                    let h = (thi - tlo).abs() * 0.5;
                    one == two || (one.is_finite() && two.is_finite()) && (one - two).abs() <= 4.0 * sp.u * one.abs().max(two.abs()) + (1e-13 + sp.crit_noise) * h
                };
                if dyadic {
                    s.count("dyadic-exact-coincidence-checks", 1);
                }
                if !ok {
                    s.violation(
                        format!("{}/one-sided-vs-two-sided-differ/{}/{}", sp.producer, kind.name(), if dyadic { "dyadic-level" } else { "level" }),
                        format!("{}: {} {l} bound {one:?} but two-sided {l2} has {two:?}", descr(), kind.name()),
                        case(kind, l, "coincide"),
                    );
                }
            }
        }
    }
}

fn sh<F: Fl>(r: stats_ci::CIResult<Interval<F>>) -> Option<(Kind, f64, f64)> {
    r.ok().map(|iv| shape(&iv))
}

fn judge_mean_sample<F: Fl>(xv: &[f64], levels: &[f64], s: &mut Sink) {
    let xs: Vec<F> = xv.iter().map(|&x| F::of(x)).collect();
    let d = |p: &str| format!("{p}<{}> on {xv:?}", F::NAME);
    let case = |p: &'static str| move |k: Kind, l: f64, rel: &str| json!({"check":"mean","producer":p,"type":F::NAME,"xs":xv,"kind":k,"level":l,"relation":rel});
    let a = Arithmetic::<F>::from_iter(&xs).unwrap();
    judge_family(
        &Spec { producer: "Arithmetic", u: F::U, ranks: false, far_ends: None, estimate: a.sample_mean().f(), crit_noise: 1e-7 },
        &|k, l| sh(Arithmetic::<F>::ci(conf(k, l), &xs)),
        levels,
        &|| d("Arithmetic::ci"),
        &case("Arithmetic"),
        s,
    );
    if xs.iter().all(|x| *x > F::zero()) {
        let g = Geometric::<F>::from_iter(&xs).unwrap();
        judge_family(
            &Spec { producer: "Geometric", u: 4.0 * F::U, ranks: false, far_ends: None, estimate: g.sample_mean().f(), crit_noise: 1e-6 },
            &|k, l| sh(Geometric::<F>::ci(conf(k, l), &xs)),
            levels,
            &|| d("Geometric::ci"),
            &case("Geometric"),
            s,
        );
        let h = Harmonic::<F>::from_iter(&xs).unwrap();
        // claimed where the reciprocal-space interval stays strictly positive: otherwise the
        // producer may return an error or a bound of the wrong sign (counted as skipped)
        let recs: Vec<F> = xs.iter().map(|x| F::one() / *x).collect();
        let positive = |k: Kind, l: f64| match Arithmetic::<F>::ci(conf(k.flipped(), l), &recs) {
            Ok(iv) => iv.low_f() > F::zero(),
            Err(_) => false,
        };
        judge_family(
            &Spec { producer: "Harmonic", u: 4.0 * F::U, ranks: false, far_ends: None, estimate: h.sample_mean().f(), crit_noise: 1e-6 },
            &|k, l| if positive(k, l) { sh(Harmonic::<F>::ci(conf(k, l), &xs)) } else { None },
            levels,
            &|| d("Harmonic::ci"),
            &case("Harmonic"),
            s,
        );
    }
}

fn judge_pair_sample<F: Fl>(av: &[f64], bv: &[f64], levels: &[f64], s: &mut Sink) {
    let a: Vec<F> = av.iter().map(|&x| F::of(x)).collect();
    let b: Vec<F> = bv.iter().map(|&x| F::of(x)).collect();
    let case = |p: &'static str| move |k: Kind, l: f64, rel: &str| json!({"check":"pair","producer":p,"type":F::NAME,"a":av,"b":bv,"kind":k,"level":l,"relation":rel});
    if a.len() == b.len() {
        let mut p = Paired::<F>::default();
        p.extend(&a, &b).unwrap();
        judge_family(
            &Spec { producer: "Paired", u: F::U, ranks: false, far_ends: None, estimate: p.sample_mean().f(), crit_noise: 1e-7 },
            &|k, l| sh(Paired::<F>::ci(conf(k, l), &a, &b)),
            levels,
            &|| format!("Paired::ci<{}> on {av:?} vs {bv:?}", F::NAME),
            &case("Paired"),
            s,
        );
    }
    let u = Unpaired::<F>::from_iter(&a, &b).unwrap();
    let est = (u.stats_a().sample_mean() - u.stats_b().sample_mean()).f();
    judge_family(
        &Spec { producer: "Unpaired", u: F::U, ranks: false, far_ends: None, estimate: est, crit_noise: 1e-7 },
        &|k, l| sh(Unpaired::<F>::ci(conf(k, l), &a, &b)),
        levels,
        &|| format!("Unpaired::ci<{}> on {av:?} vs {bv:?}", F::NAME),
        &case("Unpaired"),
        s,
    );
}

fn judge_counts(n: usize, k: usize, levels: &[f64], s: &mut Sink) {
    let est = k as f64 / n as f64;
    for (name, wald) in [("proportion::ci", false), ("proportion::ci_z_normal", true)] {
        judge_family(
            &Spec { producer: if wald { "Wald" } else { "Wilson" }, u: 2.3e-16, ranks: false, far_ends: Some((0.0, 1.0)), estimate: est, crit_noise: 0.0 },
            &|kk, l| {
                let c = conf(kk, l);
                sh(if wald { proportion::ci_z_normal(c, n, k) } else { proportion::ci(c, n, k) })
            },
            levels,
            &|| format!("{name}(n={n}, k={k})"),
            &|kk, l, rel| json!({"check":"counts","producer":name,"n":n,"k":k,"kind":kk,"level":l,"relation":rel}),
            s,
        );
    }
}

fn judge_quantile(n: usize, q: f64, levels: &[f64], s: &mut Sink) {
    let k = (q * n as f64).round();
    let to = |iv: Interval<usize>| match iv {
        Interval::TwoSided(a, b) => (Kind::Two, a as f64, b as f64),
        Interval::UpperOneSided(a) => (Kind::Upper, a as f64, f64::INFINITY),
        Interval::LowerOneSided(b) => (Kind::Lower, f64::NEG_INFINITY, b as f64),
    };
    judge_family(
        &Spec { producer: "quantile::ci_indices", u: 0.0, ranks: true, far_ends: None, estimate: k, crit_noise: 0.0 },
        &|kk, l| quantile::ci_indices(conf(kk, l), n, q).ok().map(to),
        levels,
        &|| format!("quantile::ci_indices(n={n}, q={q})"),
        &|kk, l, rel| json!({"check":"quantile","n":n,"q":q,"kind":kk,"level":l,"relation":rel}),
        s,
    );
    // elements: data = 0, 10, 20, ... so that the element at rank r is 10 r
    if n <= 40 || n > 60_000 {
        let data: Vec<i64> = (0..n as i64).map(|i| ((i * 7) % n as i64) * 10).collect();
        let uniq = {
            let mut d = data.clone();
            d.sort();
            d.dedup();
            d.len() == n
        };
        if uniq {
            let toi = |iv: Interval<i64>| match iv {
                Interval::TwoSided(a, b) => (Kind::Two, a as f64, b as f64),
                Interval::UpperOneSided(a) => (Kind::Upper, a as f64, f64::INFINITY),
                Interval::LowerOneSided(b) => (Kind::Lower, f64::NEG_INFINITY, b as f64),
            };
            judge_family(
                &Spec { producer: "quantile::ci", u: 0.0, ranks: true, far_ends: None, estimate: k, crit_noise: 0.0 },
                // elements are 10 x rank: map back to positions
                &|kk, l| quantile::ci(conf(kk, l), &data, q).ok().map(toi).map(|(a, b, c)| (a, b / 10.0, c / 10.0)),
                levels,
                &|| format!("quantile::ci on a permutation of 0,10,..,{} q={q}", 10 * (n - 1)),
                &|kk, l, rel| json!({"check":"quantile","n":n,"q":q,"kind":kk,"level":l,"relation":rel,"elements":true}),
                s,
            );
        }
    }
}

const A_DY: [f64; 8] = [-3.0, -1.0, -0.5, 0.0, 0.25, 1.0, 2.0, 1000.0];
const A_ND: [f64; 6] = [0.1, 0.3, 1.1, 1e-3, 123.456, 1e10 + 0.1];
const BV: [f64; 5] = [-2.0, 0.0, 0.25, 1.0, 1000.0];

/// (v) results must not depend on what was computed before: the same list of calls is
/// evaluated in forward, reverse and interleaved order on one thread (and once more on a
/// fresh thread); every call must return bit-identical results in all of them. A producer
/// that keeps hidden state between calls (a memo keyed too coarsely, a reused scratch
/// buffer) shows up here.
fn judge_order_independence(levels: &[f64], s: &mut Sink) {
    let xs = vec![0.25, 1000.0, -3.0, 1.0, 0.1];
    let pos = vec![0.25, 8.0, 3.7, 1.0];
    let (pa, pb) = (vec![1.0, 2.5, 0.25, 7.0], vec![0.5, 3.0, 0.25]);
    type Call = Box<dyn Fn(Kind, f64) -> String>;
    fn show(r: Option<(Kind, f64, f64)>) -> String {
        match r {
            Some((k, a, b)) => format!("{}[{:016x},{:016x}]", k.name(), a.to_bits(), b.to_bits()),
            None => "Err".to_string(),
        }
    }
    let mk = move || -> Vec<(&'static str, Call)> {
        let (xs1, pos1, pos2, pa1, pb1, pa2, pb2) = (xs.clone(), pos.clone(), pos.clone(), pa.clone(), pb.clone(), pa.clone(), pb.clone());
        vec![
            ("Arithmetic::ci", Box::new(move |k, l| show(sh(Arithmetic::<f64>::ci(conf(k, l), &xs1)))) as Call),
            ("Geometric::ci", Box::new(move |k, l| show(sh(Geometric::<f64>::ci(conf(k, l), &pos1))))),
            ("Harmonic::ci", Box::new(move |k, l| show(sh(Harmonic::<f64>::ci(conf(k, l), &pos2))))),
            ("Paired::ci", Box::new(move |k, l| show(sh(Paired::<f64>::ci(conf(k, l), &pa1[..3].to_vec(), &pb1))))),
            ("Unpaired::ci", Box::new(move |k, l| show(sh(Unpaired::<f64>::ci(conf(k, l), &pa2, &pb2))))),
            ("proportion::ci(50,17)", Box::new(|k, l| show(sh(proportion::ci(conf(k, l), 50, 17))))),
            ("proportion::ci(400,390)", Box::new(|k, l| show(sh(proportion::ci(conf(k, l), 400, 390))))),
            ("ci_z_normal(80,30)", Box::new(|k, l| show(sh(proportion::ci_z_normal(conf(k, l), 80, 30))))),
            ("ci_indices(57,0.3)", Box::new(|k, l| format!("{:?}", quantile::ci_indices(conf(k, l), 57, 0.3).ok()))),
        ]
    };
    let calls = mk();
    // the level grid plus close neighbours of every level (a level that went through f32,
    // a relative step of 1e-9, the adjacent double): hidden state keyed approximately on
    // the level would confuse them
    let mut lv: Vec<f64> = vec![];
    for &l in levels {
        for c in [l, (l as f32) as f64, l * (1.0 - 1e-9), f64::from_bits(l.to_bits() + 1)] {
            if c > 0.0 && c < 1.0 && !lv.contains(&c) {
                lv.push(c);
            }
        }
    }
    let mut plan: Vec<(usize, Kind, f64)> = vec![];
    for (i, _) in calls.iter().enumerate() {
        for &l in &lv {
            for k in KINDS {
                plan.push((i, k, l));
            }
        }
    }
    let run = |order: &[usize]| -> Vec<(usize, String)> { order.iter().map(|&j| (j, (calls[plan[j].0].1)(plan[j].1, plan[j].2))).collect() };
    let fwd: Vec<usize> = (0..plan.len()).collect();
    let rev: Vec<usize> = fwd.iter().rev().cloned().collect();
    // kinds innermost-first vs levels innermost-first vs a stride permutation
    let mut by_kind: Vec<usize> = fwd.clone();
    by_kind.sort_by_key(|&j| (plan[j].1, (plan[j].2 * 1e6) as u64, plan[j].0));
    let stride: Vec<usize> = (0..plan.len()).map(|j| (j * 37) % plan.len()).collect();
    let stride_ok = {
        let mut t = stride.clone();
        t.sort();
        t.dedup();
        t.len() == plan.len()
    };
    let base = run(&fwd);
    s.calls += base.len() as u64;
    let mut orders: Vec<(&str, Vec<usize>)> = vec![("reverse", rev), ("kind-major", by_kind)];
    if stride_ok {
        orders.push(("stride-37", stride));
    }
    for (name, ord) in &orders {
        let r = run(ord);
        s.calls += r.len() as u64;
        for (j, v) in r {
            s.evals += 1;
            if v != base[j].1 {
                let (i, k, l) = plan[j];
                s.violation(
                    format!("call-order-dependence/{}", calls[i].0.split('(').next().unwrap_or("")),
                    format!("{} at {} {l}: {} in forward order but {v} in {name} order", calls[i].0, k.name(), base[j].1),
                    json!({"check":"order","call":calls[i].0,"kind":k,"level":l,"order":name}),
                );
            }
        }
    }
    // a fresh thread (fresh thread-local state) must agree too
    let plan2 = plan.clone();
    let fresh = std::thread::spawn(move || {
        let calls = mk();
        plan2.iter().map(|&(i, k, l)| (calls[i].1)(k, l)).collect::<Vec<String>>()
    })
    .join()
    .unwrap();
    for (j, v) in fresh.iter().enumerate() {
        s.evals += 1;
        if *v != base[j].1 {
            let (i, k, l) = plan[j];
            s.violation(format!("call-order-dependence/{}", calls[i].0.split('(').next().unwrap_or("")), format!("{} at {} {l}: {} here but {v} on a fresh thread", calls[i].0, k.name(), base[j].1), json!({"check":"order","call":calls[i].0,"kind":k,"level":l,"order":"fresh-thread"}));
        }
    }
    s.outcome(&("order-independence", plan.len()));
}

/// streaming states beyond the t -> normal switch (and just below it)
fn judge_large(n: usize, levels: &[f64], s: &mut Sink) {
    let pat = [1.0, 2.0, 3.0, 0.5];
    let mut a = Arithmetic::<f64>::new();
    for i in 0..n {
        StatisticsOps::append(&mut a, pat[i % 4]).unwrap();
    }
    judge_family(
        &Spec { producer: "Arithmetic(large n)", u: 1.2e-16, ranks: false, far_ends: None, estimate: a.sample_mean(), crit_noise: 1e-7 },
        &|k, l| a.ci_mean(conf(k, l)).ok().map(|iv| shape(&iv)),
        levels,
        &|| format!("Arithmetic<f64> streaming state with n={n}"),
        &|k, l, rel| json!({"check":"large","n":n,"kind":k,"level":l,"relation":rel}),
        s,
    );
    // unpaired with about n/2 observations per side (effective dof ~ n)
    let mut u = Unpaired::<f64>::default();
    for i in 0..n / 2 + 3 {
        u.append_a(pat[i % 4]).unwrap();
        u.append_b(pat[(i + 1) % 4] * 1.5).unwrap();
    }
    let est = u.stats_a().sample_mean() - u.stats_b().sample_mean();
    judge_family(
        &Spec { producer: "Unpaired(large n)", u: 1.2e-16, ranks: false, far_ends: None, estimate: est, crit_noise: 1e-7 },
        &|k, l| u.ci_mean(conf(k, l)).ok().map(|iv| shape(&iv)),
        levels,
        &|| format!("Unpaired<f64> streaming state with {} observations per side", n / 2 + 3),
        &|k, l, rel| json!({"check":"large","n":n,"kind":k,"level":l,"relation":rel}),
        s,
    );
}

enum Job {
    Large(usize),
    Mean(Vec<f64>, bool),
    Pair(Vec<f64>, Vec<f64>, bool),
    Counts(usize),
    Quant(usize),
    QuantBig(usize, f64),
}

fn seqs(alpha: &[f64], lo: usize, hi: usize) -> Vec<Vec<f64>> {
    let mut v = vec![];
    for len in lo..=hi {
        for idx in 0..(alpha.len() as u64).pow(len as u32) {
            v.push(nth_sequence(alpha.len(), len, idx).into_iter().map(|i| alpha[i]).collect());
        }
    }
    v
}

fn run(tier: Tier) -> Sink {
    // the ordered-pair relations need the whole grid in both tiers: quick uses LQ x LQ
    // (21 pairs), thorough LG x LG (253 pairs)
    let levels: Vec<f64> = mc::levels(tier).to_vec();
    let mut jobs = vec![];
    for f32_ in [false, true] {
        for x in seqs(&A_DY, 2, tier.pick(3, 5)) {
            jobs.push(Job::Mean(x, f32_));
        }
        for x in seqs(&A_ND, 2, tier.pick(2, 4)) {
            jobs.push(Job::Mean(x, f32_));
        }
        // positive samples with a wide dynamic range for geometric / harmonic
        for x in seqs(&[0.0009765625, 0.25, 1.0, 8.0, 1000.0, 3.7], 2, tier.pick(3, 5)) {
            jobs.push(Job::Mean(x, f32_));
        }
        let pa = seqs(&BV, 2, tier.pick(2, 4));
        for a in &pa {
            for b in &pa {
                jobs.push(Job::Pair(a.clone(), b.clone(), f32_));
            }
        }
    }
    for n in [99_000usize, 100_000, 100_001, 101_500, 250_000] {
        jobs.push(Job::Large(n));
    }
    for n in 4..=tier.pick(60, 300) {
        jobs.push(Job::Counts(n));
        jobs.push(Job::Quant(n));
    }
    // large unsorted samples through the data entry point (beyond 2^16 elements)
    for n in [65_537usize, 70_001] {
        for q in [0.1, 0.5, 0.9] {
            jobs.push(Job::QuantBig(n, q));
        }
    }
    let mut s0 = Sink::new();
    judge_order_independence(&levels, &mut s0);
    let s1 = par_judge(&jobs, |j, s| match j {
        Job::Large(n) => judge_large(*n, &levels, s),
        Job::Mean(x, false) => judge_mean_sample::<f64>(x, &levels, s),
        Job::Mean(x, true) => judge_mean_sample::<f32>(x, &levels, s),
        Job::Pair(a, b, false) => judge_pair_sample::<f64>(a, b, &levels, s),
        Job::Pair(a, b, true) => judge_pair_sample::<f32>(a, b, &levels, s),
        Job::Counts(n) => {
            for k in 0..=*n {
                judge_counts(*n, k, &levels, s);
            }
        }
        Job::QuantBig(n, q) => judge_quantile(*n, *q, &levels, s),
        Job::Quant(n) => {
            for j in 1..=32 {
                judge_quantile(*n, j as f64 / 33.0, &levels, s);
            }
            judge_quantile(*n, 0.5, &levels, s);
        }
    });
    s0.merge(s1)
}

fn replay_case(case: &Value, s: &mut Sink) {
    let levels = mc::LG.to_vec();
    let f32_ = case["type"] == "f32";
    match case["check"].as_str().unwrap_or("") {
        "mean" => {
            let xs: Vec<f64> = serde_json::from_value(case["xs"].clone()).unwrap();
            if f32_ {
                judge_mean_sample::<f32>(&xs, &levels, s)
            } else {
                judge_mean_sample::<f64>(&xs, &levels, s)
            }
        }
        "pair" => {
            let a: Vec<f64> = serde_json::from_value(case["a"].clone()).unwrap();
            let b: Vec<f64> = serde_json::from_value(case["b"].clone()).unwrap();
            if f32_ {
                judge_pair_sample::<f32>(&a, &b, &levels, s)
            } else {
                judge_pair_sample::<f64>(&a, &b, &levels, s)
            }
        }
        "order" => judge_order_independence(&levels, s),
        "large" => judge_large(case["n"].as_u64().unwrap() as usize, &levels, s),
        "counts" => judge_counts(case["n"].as_u64().unwrap() as usize, case["k"].as_u64().unwrap() as usize, &levels, s),
        _ => judge_quantile(case["n"].as_u64().unwrap() as usize, case["q"].as_f64().unwrap(), &levels, s),
    }
}

fn main() {
    let (cmd, tier) = mc::parse_args();
    mc::quiet_panics();
    if let Cmd::Replay(p) = cmd {
        std::process::exit(mc::report::replay_main(P, &p, replay_case));
    }
    let mut rep = Report::new(P, tier);
    let mut s = run(tier);
    s.sample(json!({"check":"mean","producer":"Arithmetic","type":"f64","xs":[0.25,1000.0,-3.0],"relations":["Upper(0.96875).low == TwoSided(0.9375).low bit-exactly (dyadic)","CI(L1) inside CI(L2) for all L1<L2 of the grid","mean inside for two-sided and one-sided L>=1/2","kind/shape"]}));
    s.sample(json!({"check":"counts","producer":"proportion::ci","n":30,"k":7,"relations":["upper request -> [lo,1]","lower -> [0,hi]","k/n inside","nesting","coincidence within 4ulp+1e-13 h"]}));
    s.sample(json!({"check":"quantile","n":57,"q":0.30303,"relations":["ranks of Upper(0.875) == ranks of TwoSided(0.75) exactly","rank round(q n) within one position","nesting of ranks, no slack"]}));
    rep.rule = format!("producers Arithmetic/Geometric/Harmonic/Paired/Unpaired (f64,f32; Arithmetic and Unpaired also as streaming states with 99 000..250 000 observations, on both sides of the t->normal switch), proportion::ci, ci_z_normal, quantile::ci_indices, quantile::ci; inputs: sequences of length 2..{} over dyadic / non-dyadic / positive alphabets, all sample pairs of length 2..{} over a 5-value alphabet, every (n,k) and 33 quantiles for n<={}, quantile::ci also on scrambled samples of 65 537 and 70 001 elements; for each input the full table over {} levels x 3 kinds, all ordered level pairs, and the two-sided interval at 2L-1 for every one-sided L>1/2; distinct by (producer, kind, result kind, L>1/2)", tier.pick(3, 4), tier.pick(2, 3), tier.pick(60, 120), mc::levels(tier).len());
    rep.assume("coincidence is demanded bit-exactly on dyadic levels (2L-1 and the quantile mapping are exact there); on other levels within 4 ulp + (1e-13 + n) x half-width, n = 1e-7 for t-based producers because the crate refines its t quantile only to a 1e-12 cdf residual and the two calls start from quantiles one ulp apart");
    rep.assume("harmonic intervals are claimed only where the reciprocal-space interval is strictly positive (C05)");
    rep.require(s.counter("dyadic-exact-coincidence-checks") > 1000, "fewer than 1000 exact coincidence checks");
    rep.require(s.distinct() >= 40, "fewer than 40 distinct classes: vacuous");
    std::process::exit(rep.finish(s));
}
