//! C11 — invalid input yields the documented error: never a panic or a NaN interval.
//! Fault enumeration over the public surface: every fault value at every position (one
//! and two faults) of otherwise valid data, every count/ratio/quantile class, each call
//! under catch_unwind in a build with overflow checks on.

use mc::{json, par_judge, Cmd, Kind, Report, Sink, Tier, Value};
use stats_ci::comparison::{Paired, Unpaired};
use stats_ci::error::CIError;
use stats_ci::mean::{Arithmetic, Geometric, Harmonic};
use stats_ci::{proportion, quantile, CIResult, Interval, MeanCI, StatisticsOps};
use std::panic::AssertUnwindSafe;
use vcheck::{conf, err_name, Fl};

const P: &str = "C11";

#[derive(Debug)]
enum Out {
    Panic(String),
    Err(&'static str, String),
    /// (low, high) with +-inf for missing sides, as f64
    Ok(f64, f64),
}

fn out_of<T: PartialOrd + Copy + Into<f64>>(r: Result<CIResult<Interval<T>>, String>) -> Out {
    match r {
        Err(m) => Out::Panic(format!("{m} @ {}", mc::report::last_panic_loc())),
        Ok(Err(e)) => Out::Err(err_name(&e), format!("{e}")),
        Ok(Ok(iv)) => match iv {
            Interval::TwoSided(a, b) => Out::Ok(a.into(), b.into()),
            Interval::UpperOneSided(a) => Out::Ok(a.into(), f64::INFINITY),
            Interval::LowerOneSided(b) => Out::Ok(f64::NEG_INFINITY, b.into()),
        },
    }
}

fn out_usize(r: Result<CIResult<Interval<usize>>, String>) -> Out {
    match r {
        Err(m) => Out::Panic(format!("{m} @ {}", mc::report::last_panic_loc())),
        Ok(Err(e)) => Out::Err(err_name(&e), format!("{e}")),
        Ok(Ok(iv)) => match iv {
            Interval::TwoSided(a, b) => Out::Ok(a as f64, b as f64),
            Interval::UpperOneSided(a) => Out::Ok(a as f64, f64::INFINITY),
            Interval::LowerOneSided(b) => Out::Ok(f64::NEG_INFINITY, b as f64),
        },
    }
}

/// what the documentation allows for an input
struct Exp {
    /// non-empty: the call must fail with one of these variants
    must_err: Vec<&'static str>,
    /// docs are silent (overflow-to-infinity, mathematically valid infinities): any Err,
    /// or an Ok with ordered non-NaN bounds, is accepted
    ambiguous: bool,
    /// a documented panic applies (incomparable elements, ...)
    panic_ok: bool,
    class: String,
}

fn judge(ep: &str, exp: &Exp, out: &Out, descr: &dyn Fn() -> String, case: &dyn Fn() -> Value, s: &mut Sink) {
    s.evals += 1;
    s.calls += 1;
    let sig = |sym: &str| format!("{ep}/{}/{sym}", exp.class);
    match out {
        Out::Panic(m) => {
            s.outcome(&(ep, &exp.class, "panic"));
            if !exp.panic_ok {
                s.violation(sig("panic"), format!("{} panicked: {m}", descr()), case());
            } else {
                s.count("documented-panics", 1);
            }
        }
        Out::Ok(lo, hi) => {
            s.outcome(&(ep, &exp.class, "ok"));
            if lo.is_nan() || hi.is_nan() {
                s.violation(sig("ok-with-nan-bound"), format!("{} = Ok([{lo}, {hi}])", descr()), case());
            } else if lo > hi {
                s.violation(sig("ok-with-inverted-bounds"), format!("{} = Ok([{lo}, {hi}])", descr()), case());
            } else if !exp.must_err.is_empty() && !exp.ambiguous {
                s.violation(sig("ok-instead-of-documented-error"), format!("{} = Ok([{lo}, {hi}]), documented: {:?}", descr(), exp.must_err), case());
            }
        }
        Out::Err(v, msg) => {
            s.outcome(&(ep, &exp.class, *v));
            if exp.ambiguous {
                return;
            }
            if exp.must_err.is_empty() {
                s.violation(sig(&format!("valid-input-rejected:{v}")), format!("{} = Err({msg})", descr()), case());
            } else if !exp.must_err.contains(v) {
                s.violation(sig(&format!("wrong-error:{v}")), format!("{} = Err({msg}), documented: {:?}", descr(), exp.must_err), case());
            }
        }
    }
}

// ---------------- float samples -------------------------------------------------------

#[derive(Clone, Copy, Debug, PartialEq, Eq, Hash, serde::Serialize, serde::Deserialize)]
enum M {
    Arith,
    Geo,
    Harm,
}
#[derive(Clone, Copy, Debug, PartialEq, Eq, Hash, serde::Serialize, serde::Deserialize)]
enum Ep {
    Ci,
    OpsCi,
    MeanCi,
    FromIterCiMean,
    AppendCiMean,
}
const EPS: [Ep; 5] = [Ep::Ci, Ep::OpsCi, Ep::MeanCi, Ep::FromIterCiMean, Ep::AppendCiMean];

fn expect_sample<F: Fl>(m: M, xs: &[F]) -> Exp {
    let n = xs.len();
    let has_nan = xs.iter().any(|x| x.is_nan());
    let has_pinf = xs.iter().any(|x| *x == F::infinity());
    let has_ninf = xs.iter().any(|x| *x == F::neg_infinity());
    let nonpos = xs.iter().any(|x| *x <= F::zero());
    let mut must: Vec<&'static str> = vec![];
    let mut cls: Vec<&str> = vec![];
    let mut ambiguous = false;
    if n < 2 {
        must.push("TooFewSamples");
        cls.push("n<2");
    }
    if has_nan {
        must.push("InvalidInputData");
        cls.push("nan");
    }
    match m {
        M::Arith => {
            if has_pinf || has_ninf {
                must.push("InvalidInputData");
                cls.push("inf");
            }
        }
        M::Geo | M::Harm => {
            if nonpos {
                must.push("NonPositiveValue");
                cls.push("nonpositive");
            }
            if has_pinf {
                cls.push("+inf");
                if m == M::Geo {
                    must.push("InvalidInputData");
                } else {
                    // 1/inf = 0 is a perfectly finite reciprocal: docs are silent
                    ambiguous = true;
                }
            }
        }
    }
    // overflow / underflow-to-zero in the transformed space with finite, admissible input
    let t: Vec<F> = xs
        .iter()
        .map(|&x| match m {
            M::Arith => x,
            M::Geo => x.ln(),
            M::Harm => F::one() / x,
        })
        .collect();
    let sum = t.iter().fold(F::zero(), |a, &b| a + b);
    let sumsq = t.iter().fold(F::zero(), |a, &b| a + b * b);
    if must.is_empty() && (!sum.is_finite() || !sumsq.is_finite()) {
        ambiguous = true;
        cls.push("overflow");
    }
    if cls.is_empty() {
        cls.push("valid");
    }
    Exp { must_err: must, ambiguous, panic_ok: false, class: cls.join("+") }
}

fn call_sample<F: Fl + Into<f64>>(m: M, ep: Ep, c: stats_ci::Confidence, xs: &Vec<F>) -> Out {
    macro_rules! go {
        ($t:ty) => {
            match ep {
                Ep::Ci => <$t>::ci(c, xs),
                Ep::OpsCi => <$t as StatisticsOps<F>>::ci(c, xs),
                Ep::MeanCi => <$t as MeanCI<F>>::ci(c, xs),
                Ep::FromIterCiMean => <$t>::from_iter(xs).and_then(|st| st.ci_mean(c)),
                Ep::AppendCiMean => {
                    let mut st = <$t>::new();
                    let mut r = Ok(());
                    for &x in xs.iter() {
                        r = StatisticsOps::append(&mut st, x);
                        if r.is_err() {
                            break;
                        }
                    }
                    r.and_then(|_| st.ci_mean(c))
                }
            }
        };
    }
    out_of(mc::catch(AssertUnwindSafe(|| match m {
        M::Arith => go!(Arithmetic<F>),
        M::Geo => go!(Geometric<F>),
        M::Harm => go!(Harmonic<F>),
    })))
}

fn faults<F: Fl>() -> Vec<F> {
    let mut v = vec![
        F::nan(),
        F::infinity(),
        F::neg_infinity(),
        F::zero(),
        F::neg_zero(),
        F::of(-1.0),
        F::max_value(),
        F::min_positive_value(),
        F::of(1e200),
        F::of(1e-200),
        -F::max_value(),
    ];
    // smallest subnormal
    v.push(if F::NAME == "f64" { F::of(5e-324) } else { F::of(1.401298464324817e-45) });
    v
}

fn samples<F: Fl>(tier: Tier) -> Vec<Vec<F>> {
    let base = [1.0, 2.5, 7.0];
    let fl = faults::<F>();
    let mut out: Vec<Vec<F>> = vec![];
    for len in 0..=4usize {
        for idx in 0..3u64.pow(len as u32) {
            let b: Vec<F> = mc::explore::nth_sequence(3, len, idx).into_iter().map(|i| F::of(base[i])).collect();
            out.push(b.clone());
            // one fault at every position
            for p in 0..len {
                for &f in &fl {
                    let mut v = b.clone();
                    v[p] = f;
                    out.push(v);
                }
            }
            // two faults at every pair of positions (quick: for the first base of each length only)
            if tier == Tier::Thorough || idx == 0 || idx == 3u64.pow(len as u32) / 2 {
                for p in 0..len {
                    for q in (p + 1)..len {
                        for &f in &fl {
                            for &g in &fl {
                                let mut v = b.clone();
                                v[p] = f;
                                v[q] = g;
                                out.push(v);
                            }
                        }
                    }
                }
            }
        }
    }
    // constant non-dyadic samples (variance rounds around zero), huge / tiny magnitudes
    for x in [0.1, 1.1, 0.001, 0.3, 123.456, 1e10 + 0.1, 1e-300, 1e300] {
        for n in 2..=7 {
            out.push(vec![F::of(x); n]);
        }
    }
    out.push(vec![F::of(1e200), F::of(2e200)]);
    out.push(vec![F::of(1e-200), F::of(2e-200), F::of(3e-200)]);
    out
}

fn judge_sample<F: Fl + Into<f64>>(xs: &Vec<F>, confs: &[(Kind, f64)], s: &mut Sink) {
    for m in [M::Arith, M::Geo, M::Harm] {
        let exp0 = expect_sample::<F>(m, xs);
        for ep in EPS {
            for &(kind, level) in confs {
                let c = conf(kind, level);
                let out = call_sample::<F>(m, ep, c, xs);
                // Harmonic, valid data: when the reciprocal-space interval reaches zero or
                // below, 1/x of it is not an interval (C05 claims nothing there); an error
                // is as good as an ordered non-NaN result
                let mut exp = Exp { must_err: exp0.must_err.clone(), ambiguous: exp0.ambiguous, panic_ok: false, class: exp0.class.clone() };
                if m == M::Harm && exp.must_err.is_empty() && !exp.ambiguous {
                    let recips: Vec<F> = xs.iter().map(|&x| F::one() / x).collect();
                    let straddles = match Arithmetic::<F>::ci(c.flipped(), &recips) {
                        Ok(iv) => !(iv.low_f() > F::zero()),
                        Err(_) => true,
                    };
                    if straddles {
                        exp.ambiguous = true;
                        exp.class = format!("{}+reciprocal-interval-reaches-0", exp.class);
                    }
                }
                let xsf: Vec<f64> = xs.iter().map(|x| x.f()).collect();
                judge(
                    &format!("{m:?}::{ep:?}"),
                    &exp,
                    &out,
                    &|| format!("{m:?}::{ep:?}<{}>({c:?}, {xsf:?})", F::NAME),
                    &|| json!({"check":"sample","type":F::NAME,"xs":xsf.iter().map(|x| x.to_bits()).collect::<Vec<u64>>(),"kind":kind,"level":level}),
                    s,
                );
            }
        }
    }
}

// ---------------- comparisons ---------------------------------------------------------

/// an iterable whose iterator gives no size hint ((0, None), like `flatten`)
struct NoHint<F>(Vec<F>);
struct NoHintIter<'a, F>(std::slice::Iter<'a, F>);
impl<'a, F> Iterator for NoHintIter<'a, F> {
    type Item = &'a F;
    fn next(&mut self) -> Option<&'a F> {
        self.0.next()
    }
}
impl<'a, F> IntoIterator for &'a NoHint<F> {
    type Item = &'a F;
    type IntoIter = NoHintIter<'a, F>;
    fn into_iter(self) -> NoHintIter<'a, F> {
        NoHintIter(self.0.iter())
    }
}

fn judge_pairs<F: Fl + Into<f64>>(a: &Vec<F>, b: &Vec<F>, confs: &[(Kind, f64)], s: &mut Sink) {
    let bad = |v: &Vec<F>| v.iter().any(|x| !x.is_finite());
    let (af, bf): (Vec<f64>, Vec<f64>) = (a.iter().map(|x| x.f()).collect(), b.iter().map(|x| x.f()).collect());
    let case = |kind: Kind, level: f64| json!({"check":"pairs","type":F::NAME,"a":af.iter().map(|x| x.to_bits()).collect::<Vec<u64>>(),"b":bf.iter().map(|x| x.to_bits()).collect::<Vec<u64>>(),"kind":kind,"level":level});
    // paired
    let mut must: Vec<&'static str> = vec![];
    let mut cls = vec![];
    if a.len() != b.len() {
        must.push("DifferentSampleSizes");
        cls.push("len-mismatch");
    } else {
        if a.len() < 2 {
            must.push("TooFewSamples");
            cls.push("n<2");
        }
        if bad(a) || bad(b) {
            must.push("InvalidInputData");
            cls.push("nan-or-inf");
        }
    }
    let mut ambiguous = false;
    if must.is_empty() {
        let d: Vec<F> = a.iter().zip(b).map(|(x, y)| *x - *y).collect();
        let ss = d.iter().fold(F::zero(), |acc, &x| acc + x * x);
        if !ss.is_finite() {
            ambiguous = true;
            cls.push("overflow");
        }
    }
    if cls.is_empty() {
        cls.push("valid");
    }
    let exp_p = Exp { must_err: must, ambiguous, panic_ok: false, class: cls.join("+") };
    // unpaired
    let mut must: Vec<&'static str> = vec![];
    let mut cls = vec![];
    if a.len() < 2 || b.len() < 2 {
        must.push("TooFewSamples");
        cls.push("n<2");
    }
    if bad(a) || bad(b) {
        must.push("InvalidInputData");
        cls.push("nan-or-inf");
    }
    let mut ambiguous = false;
    if must.is_empty() {
        let ss = a.iter().chain(b.iter()).fold(F::zero(), |acc, &x| acc + x * x);
        if !ss.is_finite() {
            ambiguous = true;
            cls.push("overflow");
        }
    }
    if cls.is_empty() {
        cls.push("valid");
    }
    let exp_u = Exp { must_err: must, ambiguous, panic_ok: false, class: cls.join("+") };
    for &(kind, level) in confs {
        let c = conf(kind, level);
        let d = |ep: &str| format!("{ep}<{}>({c:?}, {af:?}, {bf:?})", F::NAME);
        let o = out_of(mc::catch(AssertUnwindSafe(|| Paired::<F>::ci(c, a, b))));
        judge("Paired::ci", &exp_p, &o, &|| d("Paired::ci"), &|| case(kind, level), s);
        // the same through iterables without a size hint (the iterator protocol allows it)
        let (na, nb) = (NoHint(a.clone()), NoHint(b.clone()));
        let o = out_of(mc::catch(AssertUnwindSafe(|| Paired::<F>::ci(c, &na, &nb))));
        judge("Paired::ci(no size hint)", &exp_p, &o, &|| d("Paired::ci through iterators without size hint"), &|| case(kind, level), s);
        let o = out_of(mc::catch(AssertUnwindSafe(|| Unpaired::<F>::ci(c, &na, &nb))));
        judge("Unpaired::ci(no size hint)", &exp_u, &o, &|| d("Unpaired::ci through iterators without size hint"), &|| case(kind, level), s);
        let o = out_of(mc::catch(AssertUnwindSafe(|| {
            let mut st = Paired::<F>::default();
            st.extend(a, b)?;
            st.ci_mean(c)
        })));
        judge("Paired::extend+ci_mean", &exp_p, &o, &|| d("Paired::extend+ci_mean"), &|| case(kind, level), s);
        if a.len() == b.len() {
            let tuples: Vec<(F, F)> = a.iter().cloned().zip(b.iter().cloned()).collect();
            let o = out_of(mc::catch(AssertUnwindSafe(|| {
                let mut st = Paired::<F>::default();
                st.extend_tuple(&tuples)?;
                st.ci_mean(c)
            })));
            judge("Paired::extend_tuple+ci_mean", &exp_p, &o, &|| d("Paired::extend_tuple+ci_mean"), &|| case(kind, level), s);
            let o = out_of(mc::catch(AssertUnwindSafe(|| {
                let mut st = Paired::<F>::default();
                for (x, y) in &tuples {
                    st.append_pair(*x, *y)?;
                }
                st.ci_mean(c)
            })));
            judge("Paired::append_pair+ci_mean", &exp_p, &o, &|| d("Paired::append_pair+ci_mean"), &|| case(kind, level), s);
        }
        let o = out_of(mc::catch(AssertUnwindSafe(|| Unpaired::<F>::ci(c, a, b))));
        judge("Unpaired::ci", &exp_u, &o, &|| d("Unpaired::ci"), &|| case(kind, level), s);
        let o = out_of(mc::catch(AssertUnwindSafe(|| Unpaired::<F>::from_iter(a, b)?.ci_mean(c))));
        judge("Unpaired::from_iter+ci_mean", &exp_u, &o, &|| d("Unpaired::from_iter+ci_mean"), &|| case(kind, level), s);
        let o = out_of(mc::catch(AssertUnwindSafe(|| {
            let mut st = Unpaired::<F>::default();
            st.extend_b(b)?;
            for &x in a.iter() {
                st.append_a(x)?;
            }
            st.ci_mean(c)
        })));
        judge("Unpaired::extend_b/append_a+ci_mean", &exp_u, &o, &|| d("Unpaired::extend_b/append_a+ci_mean"), &|| case(kind, level), s);
        let o = out_of(mc::catch(AssertUnwindSafe(|| Unpaired::<F>::new(Arithmetic::from_iter(a)?, Arithmetic::from_iter(b)?).ci_mean(c))));
        judge("Unpaired::new+ci_mean", &exp_u, &o, &|| d("Unpaired::new+ci_mean"), &|| case(kind, level), s);
    }
}

fn pair_inputs<F: Fl>(tier: Tier) -> Vec<(Vec<F>, Vec<F>)> {
    let base = [1.0, 2.5, 7.0, 3.25];
    let fl = faults::<F>();
    let mut out = vec![];
    for la in 0..=4usize {
        for lb in 0..=4usize {
            let a: Vec<F> = (0..la).map(|i| F::of(base[i])).collect();
            let b: Vec<F> = (0..lb).map(|i| F::of(base[(i + 1) % 4] * 0.5)).collect();
            out.push((a.clone(), b.clone()));
            // constant samples (both, one)
            out.push((vec![F::of(0.1); la], vec![F::of(0.1); lb]));
            out.push((vec![F::of(1.1); la], b.clone()));
            out.push((a.clone(), vec![F::of(0.3); lb]));
            for &f in &fl {
                for p in 0..la {
                    let mut v = a.clone();
                    v[p] = f;
                    out.push((v, b.clone()));
                }
                for p in 0..lb {
                    let mut v = b.clone();
                    v[p] = f;
                    out.push((a.clone(), v));
                }
                if tier == Tier::Thorough || (la <= 3 && lb <= 3) {
                    for &g in &fl {
                        for p in 0..la {
                            for q in 0..lb {
                                let (mut va, mut vb) = (a.clone(), b.clone());
                                va[p] = f;
                                vb[q] = g;
                                out.push((va, vb));
                            }
                        }
                    }
                }
            }
        }
    }
    out
}

// ---------------- proportions ---------------------------------------------------------

fn judge_counts(n: usize, k: usize, confs: &[(Kind, f64)], s: &mut Sink) {
    let mk = |lim: usize| {
        let mut must: Vec<&'static str> = vec![];
        let mut cls = vec![];
        if k > n {
            must.push("InvalidSuccesses");
            cls.push("k>n".to_string());
        } else {
            if k < lim {
                must.push("TooFewSuccesses");
                cls.push(format!("k<{lim}"));
            }
            if n - k < lim {
                must.push("TooFewFailures");
                cls.push(format!("n-k<{lim}"));
            }
        }
        if cls.is_empty() {
            cls.push("valid".into());
        }
        Exp { must_err: must, ambiguous: false, panic_ok: false, class: cls.join("+") }
    };
    let (exp_w, exp_z) = (mk(2), mk(10));
    let case = |kind: Kind, level: f64| json!({"check":"counts","n":n,"k":k,"kind":kind,"level":level});
    for &(kind, level) in confs {
        let c = conf(kind, level);
        let o = out_of(mc::catch(AssertUnwindSafe(|| proportion::ci(c, n, k))));
        judge("proportion::ci", &exp_w, &o, &|| format!("proportion::ci({c:?}, {n}, {k})"), &|| case(kind, level), s);
        let o = out_of(mc::catch(AssertUnwindSafe(|| proportion::ci_wilson(c, n, k))));
        judge("proportion::ci_wilson", &exp_w, &o, &|| format!("proportion::ci_wilson({c:?}, {n}, {k})"), &|| case(kind, level), s);
        let o = out_of(mc::catch(AssertUnwindSafe(|| proportion::ci_z_normal(c, n, k))));
        judge("proportion::ci_z_normal", &exp_z, &o, &|| format!("proportion::ci_z_normal({c:?}, {n}, {k})"), &|| case(kind, level), s);
        // Stats::new(n,k) with k > n is a documented panic
        let o = out_of(mc::catch(AssertUnwindSafe(|| proportion::Stats::new(n, k).ci(c))));
        let exp_s = Exp { must_err: exp_w.must_err.clone(), ambiguous: false, panic_ok: k > n, class: exp_w.class.clone() };
        judge("proportion::Stats::ci", &exp_s, &o, &|| format!("proportion::Stats::new({n}, {k}).ci({c:?})"), &|| case(kind, level), s);
    }
    // is_significant must be total
    s.evals += 2;
    s.calls += 2;
    let r = mc::catch(AssertUnwindSafe(|| proportion::is_significant(n, k)));
    match r {
        Err(m) => s.violation(format!("proportion::is_significant/{}/panic", if k > n { "k>n" } else { "k<=n" }), format!("proportion::is_significant({n}, {k}) panicked: {m}"), case(Kind::Two, 0.95)),
        Ok(b) => {
            // (its thresholds are not part of any listed property: only totality is judged;
            // k > n can never be significant)
            s.outcome(&("is_significant", b));
            if b && k > n {
                s.violation("proportion::is_significant/true-for-invalid-counts", format!("is_significant({n}, {k}) = {b}"), case(Kind::Two, 0.95));
            }
        }
    }
    if k <= n {
        if let Err(m) = mc::catch(AssertUnwindSafe(|| proportion::Stats::new(n, k).is_significant())) {
            s.violation("proportion::Stats::is_significant/panic", format!("Stats::new({n}, {k}).is_significant() panicked: {m}"), case(Kind::Two, 0.95));
        }
    }
}

fn judge_ratio(n: usize, rate: f64, confs: &[(Kind, f64)], s: &mut Sink) {
    let mut must: Vec<&'static str> = vec![];
    let mut cls = vec![];
    let k = (rate * n as f64).round();
    if rate.is_nan() || k.is_nan() || (rate > 0.0 && k >= 18446744073709551616.0) {
        // the implied count is not a number or not representable
        // not a count at all: any documented error
        must.extend(["NonPositiveValue", "InvalidSuccesses", "TooFewSuccesses", "TooFewFailures"]);
        cls.push("rate-or-count-not-representable");
    } else if rate <= 0.0 {
        must.extend(["NonPositiveValue", "TooFewSuccesses"]);
        cls.push("rate<=0");
    } else if k > n as f64 {
        must.push("InvalidSuccesses");
        cls.push("rate>1");
    } else {
        if k < 2.0 {
            must.push("TooFewSuccesses");
            cls.push("k<2");
        }
        if n as f64 - k < 2.0 {
            must.push("TooFewFailures");
            cls.push("n-k<2");
        }
    }
    if cls.is_empty() {
        cls.push("valid");
    }
    let exp = Exp { must_err: must, ambiguous: false, panic_ok: false, class: cls.join("+") };
    for &(kind, level) in confs {
        let c = conf(kind, level);
        let o = out_of(mc::catch(AssertUnwindSafe(|| proportion::ci_wilson_ratio(c, n, rate))));
        judge("proportion::ci_wilson_ratio", &exp, &o, &|| format!("ci_wilson_ratio({c:?}, {n}, {rate:?})"), &|| json!({"check":"ratio","n":n,"rate_bits":rate.to_bits(),"kind":kind,"level":level}), s);
    }
}

fn judge_bools(bits: &Vec<bool>, confs: &[(Kind, f64)], s: &mut Sink) {
    let n = bits.len();
    let k = bits.iter().filter(|b| **b).count();
    let mut must: Vec<&'static str> = vec![];
    let mut cls = vec![];
    if k < 2 {
        must.push("TooFewSuccesses");
        cls.push("k<2");
    }
    if n - k < 2 {
        must.push("TooFewFailures");
        cls.push("n-k<2");
    }
    if cls.is_empty() {
        cls.push("valid");
    }
    let exp = Exp { must_err: must, ambiguous: false, panic_ok: false, class: cls.join("+") };
    for &(kind, level) in confs {
        let c = conf(kind, level);
        let case = || json!({"check":"bools","bits":bits,"kind":kind,"level":level});
        let o = out_of(mc::catch(AssertUnwindSafe(|| proportion::ci_true(c, bits))));
        judge("proportion::ci_true", &exp, &o, &|| format!("ci_true({c:?}, {bits:?})"), &case, s);
        let o = out_of(mc::catch(AssertUnwindSafe(|| proportion::ci_if(c, bits, |b| *b))));
        judge("proportion::ci_if", &exp, &o, &|| format!("ci_if({c:?}, {bits:?})"), &case, s);
    }
}

// ---------------- quantiles -----------------------------------------------------------

fn judge_quantile(data: &Vec<f64>, q: f64, confs: &[(Kind, f64)], s: &mut Sink) {
    let n = data.len();
    let incomparable = data.iter().any(|x| x.is_nan());
    let mut must: Vec<&'static str> = vec![];
    let mut cls = vec![];
    let q_ok = q > 0.0 && q < 1.0;
    if !q_ok {
        must.push("InvalidQuantile");
        cls.push(if q.is_nan() { "q-nan" } else { "q-outside-(0,1)" });
    }
    if n < 4 {
        must.push("TooFewSamples");
        cls.push("n<4");
    }
    if q_ok && n >= 4 {
        let k = (q * n as f64).round() as usize;
        if k < 2 {
            must.push("TooFewSuccesses");
            cls.push("k<2");
        }
        if n - k.min(n) < 2 {
            must.push("TooFewFailures");
            cls.push("n-k<2");
        }
    }
    if cls.is_empty() {
        cls.push("valid");
    }
    let class = cls.join("+");
    let exp = Exp { must_err: must.clone(), ambiguous: false, panic_ok: false, class: class.clone() };
    // sorting data with incomparable elements is a documented panic
    let exp_sort = Exp { must_err: must.clone(), ambiguous: incomparable, panic_ok: incomparable && n >= 2, class: if incomparable { format!("{class}+incomparable") } else { class.clone() } };
    let mut sorted = data.clone();
    sorted.sort_by(|a, b| a.partial_cmp(b).unwrap_or(std::cmp::Ordering::Equal));
    for &(kind, level) in confs {
        let c = conf(kind, level);
        let case = || json!({"check":"quantile","data":data.iter().map(|x| x.to_bits()).collect::<Vec<u64>>(),"q_bits":q.to_bits(),"kind":kind,"level":level});
        let o = out_usize(mc::catch(AssertUnwindSafe(|| quantile::ci_indices(c, n, q))));
        judge("quantile::ci_indices", &exp, &o, &|| format!("ci_indices({c:?}, {n}, {q:?})"), &case, s);
        let o = out_usize(mc::catch(AssertUnwindSafe(|| quantile::Stats::new(n).ci(c, q))));
        judge("quantile::Stats::ci", &exp, &o, &|| format!("quantile::Stats::new({n}).ci({c:?}, {q:?})"), &case, s);
        if !incomparable {
            let o = out_of(mc::catch(AssertUnwindSafe(|| quantile::ci_sorted_unchecked(c, &sorted, q))));
            judge("quantile::ci_sorted_unchecked", &exp, &o, &|| format!("ci_sorted_unchecked({c:?}, {sorted:?}, {q:?})"), &case, s);
        }
        let o = out_of(mc::catch(AssertUnwindSafe(|| quantile::ci(c, data, q))));
        judge("quantile::ci", &exp_sort, &o, &|| format!("quantile::ci({c:?}, {data:?}, {q:?})"), &case, s);
        let o = out_of(mc::catch(AssertUnwindSafe(|| quantile::ci_max_size::<f64, Vec<f64>, 8>(c, data, q))));
        let exp_cap = Exp { must_err: must.clone(), ambiguous: exp_sort.ambiguous || n > 8, panic_ok: exp_sort.panic_ok || n > 8, class: if n > 8 { format!("{}+over-capacity", exp_sort.class) } else { exp_sort.class.clone() } };
        judge("quantile::ci_max_size", &exp_cap, &o, &|| format!("ci_max_size::<8>({c:?}, {data:?}, {q:?})"), &case, s);
    }
    // Stats::index is total over its documented domain
    s.evals += 1;
    s.calls += 1;
    let r = mc::catch(AssertUnwindSafe(|| quantile::Stats::new(n).index(q)));
    let case = json!({"check":"index","n":n,"q_bits":q.to_bits()});
    match r {
        Err(m) => s.violation("quantile::Stats::index/panic", format!("Stats::new({n}).index({q:?}) panicked: {m}"), case),
        Ok(Ok(i)) => {
            if n == 0 || !(0.0..=1.0).contains(&q) {
                s.violation(format!("quantile::Stats::index/{}/ok-instead-of-documented-error", if n == 0 { "n=0" } else if q.is_nan() { "q-nan" } else { "q-outside-[0,1]" }), format!("Stats::new({n}).index({q:?}) = Ok({i})"), case);
            } else if i >= n {
                s.violation("quantile::Stats::index/out-of-range", format!("Stats::new({n}).index({q:?}) = Ok({i})"), case);
            }
        }
        Ok(Err(e)) => {
            let ok = (n == 0 && err_name(&e) == "TooFewSamples") || (!(0.0..=1.0).contains(&q) && err_name(&e) == "InvalidQuantile");
            if !ok {
                s.violation(format!("quantile::Stats::index/wrong-error:{}", err_name(&e)), format!("Stats::new({n}).index({q:?}) = Err({e})"), case);
            }
        }
    }
}

// ---------------- driver --------------------------------------------------------------

enum Job {
    S64(Vec<f64>),
    S32(Vec<f32>),
    P64(Vec<f64>, Vec<f64>),
    P32(Vec<f32>, Vec<f32>),
    Counts(usize),
    Ratio(usize),
    Bools(Vec<bool>),
    Quant(Vec<f64>),
}

fn confs_for(tier: Tier) -> Vec<(Kind, f64)> {
    match tier {
        Tier::Quick => vec![(Kind::Two, 0.95), (Kind::Two, 0.001), (Kind::Two, 0.9999), (Kind::Upper, 0.9999), (Kind::Upper, 0.25), (Kind::Upper, 0.001), (Kind::Lower, 0.5), (Kind::Lower, 0.96875), (Kind::Lower, 0.001)],
        Tier::Thorough => vcheck::confs(Tier::Thorough),
    }
}

const QS: [f64; 12] = [f64::NAN, -1.0, 0.0, -0.0, 5e-324, 0.05, 0.5, 0.95, 0.9999999999999999, 1.0, 2.0, f64::INFINITY];
const RATES: [f64; 10] = [f64::NAN, -0.1, 0.0, -0.0, 1e-9, 0.5, 1.0, 1.5, f64::INFINITY, f64::NEG_INFINITY];

fn run(tier: Tier) -> Sink {
    let confs = confs_for(tier);
    let mut jobs = vec![];
    jobs.extend(samples::<f64>(tier).into_iter().map(Job::S64));
    jobs.extend(samples::<f32>(tier).into_iter().map(Job::S32));
    jobs.extend(pair_inputs::<f64>(tier).into_iter().map(|(a, b)| Job::P64(a, b)));
    jobs.extend(pair_inputs::<f32>(tier).into_iter().map(|(a, b)| Job::P32(a, b)));
    for n in (0..=40).chain([usize::MAX, (1usize << 53) + 1, 1_000_000]) {
        jobs.push(Job::Counts(n));
        jobs.push(Job::Ratio(n));
    }
    for len in 0..=6 {
        for m in 0..(1u32 << len) {
            jobs.push(Job::Bools((0..len).map(|i| m >> i & 1 == 1).collect()));
        }
    }
    for n in 0..=10usize {
        let d: Vec<f64> = (0..n).map(|i| ((i * 7) % 11) as f64 - 3.0).collect();
        jobs.push(Job::Quant(d.clone()));
        jobs.push(Job::Quant(vec![2.5; n]));
        for p in 0..n {
            for f in [f64::NAN, f64::INFINITY, f64::NEG_INFINITY, -0.0] {
                let mut v = d.clone();
                v[p] = f;
                jobs.push(Job::Quant(v));
            }
        }
    }
    par_judge(&jobs, |j, s| match j {
        Job::S64(x) => judge_sample::<f64>(x, &confs, s),
        Job::S32(x) => judge_sample::<f32>(x, &confs, s),
        Job::P64(a, b) => judge_pairs::<f64>(a, b, &confs, s),
        Job::P32(a, b) => judge_pairs::<f32>(a, b, &confs, s),
        Job::Counts(n) => {
            let ks: Vec<usize> = if *n <= 40 { (0..=n + 2).collect() } else { vec![0, 1, 2, 9, 10, 11, n / 2, n - 11, n - 10, n - 9, n - 2, n - 1, *n] };
            for k in ks {
                judge_counts(*n, k, &confs, s);
            }
            if *n < usize::MAX {
                judge_counts(*n, n + 1, &confs, s);
            }
            judge_counts(*n, usize::MAX, &confs, s);
        }
        Job::Ratio(n) => {
            for r in RATES {
                judge_ratio(*n, r, &confs, s);
            }
            if *n > 0 && *n <= 40 {
                for k in 0..=*n {
                    judge_ratio(*n, k as f64 / *n as f64, &confs, s);
                }
            }
        }
        Job::Bools(b) => judge_bools(b, &confs, s),
        Job::Quant(d) => {
            for q in QS {
                judge_quantile(d, q, &confs, s);
            }
        }
    })
}

fn replay_case(case: &Value, s: &mut Sink) {
    let kind: Kind = serde_json::from_value(case["kind"].clone()).unwrap_or(Kind::Two);
    let level = case["level"].as_f64().unwrap_or(0.95);
    let confs = [(kind, level)];
    let bits = |v: &Value| -> Vec<f64> { v.as_array().unwrap().iter().map(|x| f64::from_bits(x.as_u64().unwrap())).collect() };
    match case["check"].as_str().unwrap_or("") {
        "sample" => {
            let xs = bits(&case["xs"]);
            if case["type"] == "f32" {
                judge_sample::<f32>(&xs.iter().map(|x| *x as f32).collect(), &confs, s)
            } else {
                judge_sample::<f64>(&xs, &confs, s)
            }
        }
        "pairs" => {
            let (a, b) = (bits(&case["a"]), bits(&case["b"]));
            if case["type"] == "f32" {
                judge_pairs::<f32>(&a.iter().map(|x| *x as f32).collect(), &b.iter().map(|x| *x as f32).collect(), &confs, s)
            } else {
                judge_pairs::<f64>(&a, &b, &confs, s)
            }
        }
        "counts" => judge_counts(case["n"].as_u64().unwrap() as usize, case["k"].as_u64().unwrap() as usize, &confs, s),
        "ratio" => judge_ratio(case["n"].as_u64().unwrap() as usize, f64::from_bits(case["rate_bits"].as_u64().unwrap()), &confs, s),
        "bools" => judge_bools(&serde_json::from_value(case["bits"].clone()).unwrap(), &confs, s),
        "quantile" => judge_quantile(&bits(&case["data"]), f64::from_bits(case["q_bits"].as_u64().unwrap()), &confs, s),
        "index" => judge_quantile(&vec![1.0; case["n"].as_u64().unwrap() as usize], f64::from_bits(case["q_bits"].as_u64().unwrap()), &confs, s),
        _ => eprintln!("unknown replay case"),
    }
}

fn main() {
    let (cmd, tier) = mc::parse_args();
    mc::quiet_panics();
    if let Cmd::Replay(p) = cmd {
        std::process::exit(mc::report::replay_main(P, &p, replay_case));
    }
    let mut rep = Report::new(P, tier);
    let mut s = run(tier);
    s.sample(json!({"check":"sample","entry":"Harmonic::ci<f32>","xs":"[1.0, NaN, 7.0]","expect":"Err(InvalidInputData); never a panic, never Ok([NaN, ..])"}));
    s.sample(json!({"check":"pairs","entry":"Unpaired::ci<f64>","a":"[1.0]","b":"[1.25, 3.5, 1.625]","expect":"Err(TooFewSamples)"}));
    s.sample(json!({"check":"counts","entry":"proportion::is_significant","n":40,"k":50,"expect":"false, no overflow panic"}));
    s.sample(json!({"check":"quantile","entry":"quantile::ci","data":"[-3,4,0,7]","q":"NaN","expect":"Err(InvalidQuantile)"}));
    rep.rule = "fault enumeration: base samples of length 0..4 over {1,2.5,7} with each of 12 fault values (NaN,+-inf,0,-0,-1,+-MAX,MIN_POSITIVE,smallest subnormal,1e200,1e-200) at every position (one fault everywhere; two faults at every position pair), constant non-dyadic samples, f64 and f32, through 5 entry points x {Arithmetic,Geometric,Harmonic}; sample pairs of lengths 0..4 squared with faults through 8 Paired/Unpaired entry points; every (n,k), n<=40, k<=n+2 plus n in {1e6, 2^53+1, usize::MAX} through ci, ci_wilson, ci_z_normal, Stats::ci, is_significant; 10 ratios x n; every boolean vector of length <=6; quantile entry points over data of length 0..10 (with NaN/inf elements) x 12 quantiles; x confidences of all three kinds; each call under catch_unwind with overflow checks on; distinct by (entry point, input class, outcome variant)".into();
    rep.assume("when several documented error classes apply to one input, any applicable documented variant is accepted; for inputs on which the docs are silent (overflow to infinity with finite input, 1/inf = 0 for harmonic means) any Err or an Ok with ordered non-NaN bounds is accepted");
    rep.assume("documented panics: Stats::new with successes > population; incomparable elements / capacity overflow while sorting for a quantile (Confidence construction and interval operations are covered by C18/C13)");
    rep.require(s.distinct() >= 60, "fewer than 60 distinct (entry, class, outcome) triples: vacuous");
    rep.require(s.counter("documented-panics") > 0, "no documented panic was exercised");
    std::process::exit(rep.finish(s));
}
