//! C12 — exact binomial coverage of proportion and quantile intervals is near nominal.
//! Coverage is summed exactly over ALL outcomes k (never sampled), with the intervals
//! for each outcome coming from the real code. The slack constants are properties of
//! the *method* (textbook Wilson), frozen from the oracle's own formula (`calibrate`
//! mode prints them) and never derived from the implementation's output.

use mc::oracle::{binom_pmf_vec, kahan_sum, norm_ppf, target_prob, wilson_roots};
use mc::{json, par_judge, Cmd, Kind, Report, Sink, Tier, Value, KINDS};
use stats_ci::{proportion, quantile, Interval};
use vcheck::conf;

const P: &str = "C12";
const LEVELS: [f64; 4] = [0.8, 0.9, 0.95, 0.99];

// ---- frozen slack table (see DESIGN §4/C12; produced by `c12 calibrate` from the
// oracle's textbook Wilson, +25 % margin, rounded up) --------------------------------
/// pointwise: coverage >= L - PROP_POINT[kind][level]
const PROP_POINT: [[f64; 4]; 3] = include!("c12_prop_point.in");
/// average over the p grid: |mean coverage - L| <= PROP_AVG[kind][level]
const PROP_AVG: [[f64; 4]; 3] = include!("c12_prop_avg.in");
/// quantile, pointwise: |coverage - L| <= QUANT_ATOMS[kind] * max_k pmf(k; n, q)
const QUANT_ATOMS: [f64; 3] = include!("c12_quant_atoms.in");
/// quantile, average over q: |mean coverage - L| <= QUANT_AVG[kind] / sqrt(n)  (n >= 100)
const QUANT_AVG: [f64; 3] = include!("c12_quant_avg.in");

fn z_of(kind: Kind, level: f64) -> f64 {
    norm_ppf(target_prob(level, kind == Kind::Two).0)
}

fn p_grid(n: usize, points: usize) -> Vec<f64> {
    let lo = 10.0 / n as f64;
    let hi = 1.0 - lo;
    if !(lo < hi) {
        return vec![];
    }
    (0..points).map(|i| lo + (hi - lo) * i as f64 / (points - 1) as f64).collect()
}

/// intervals for every outcome k = 0..=n, for the three kinds at one level: None = error
/// (counts as "does not cover"). The three kinds are requested one after the other for each
/// outcome, so that a result depending on the previous call (a stale cache keyed by the
/// level only, say) shows up in the coverage of at least one kind.
fn impl_prop_intervals(n: usize, level: f64, ratio_form: bool, s: &mut Sink) -> [Vec<Option<(f64, f64)>>; 3] {
    let mut out = [vec![], vec![], vec![]];
    for k in 0..=n {
        for (i, kind) in KINDS.iter().enumerate() {
            s.calls += 1;
            // (ratio form: the interval a user gets who holds the observed rate k/n)
            let r = if ratio_form { proportion::ci_wilson_ratio(conf(*kind, level), n, k as f64 / n as f64) } else { proportion::ci(conf(*kind, level), n, k) };
            out[i].push(match r {
                Ok(Interval::TwoSided(a, b)) => Some((a, b)),
                Ok(Interval::UpperOneSided(a)) => Some((a, f64::INFINITY)),
                Ok(Interval::LowerOneSided(b)) => Some((f64::NEG_INFINITY, b)),
                Err(_) => None,
            });
        }
    }
    out
}

fn oracle_prop_intervals(n: usize, kind: Kind, level: f64) -> Vec<Option<(f64, f64)>> {
    let z = z_of(kind, level);
    (0..=n)
        .map(|k| {
            if k < 2 || n - k < 2 {
                return None;
            }
            let (lo, hi) = wilson_roots(n as f64, k as f64, z);
            Some(match kind {
                Kind::Two => (lo, hi),
                Kind::Upper => (lo, 1.0),
                Kind::Lower => (0.0, hi),
            })
        })
        .collect()
}

fn coverage(iv: &[Option<(f64, f64)>], pmf: &[f64], p: f64) -> f64 {
    let terms: Vec<f64> = iv.iter().zip(pmf).filter(|(b, _)| matches!(b, Some((lo, hi)) if *lo <= p && p <= *hi)).map(|(_, w)| *w).collect();
    kahan_sum(&terms)
}

struct PropStats {
    min_dev: f64, // min over p of C - L
    min_at: f64,
    mean_dev: f64, // mean over p of C - L
}

fn prop_stats(iv: &[Option<(f64, f64)>], n: usize, level: f64, grid: &[f64], pmfs: &[Vec<f64>]) -> PropStats {
    let _ = n;
    let mut min_dev = f64::INFINITY;
    let mut min_at = 0.0;
    let mut devs = vec![];
    for (p, pmf) in grid.iter().zip(pmfs) {
        let c = coverage(iv, pmf, *p);
        let d = c - level;
        if d < min_dev {
            min_dev = d;
            min_at = *p;
        }
        devs.push(d);
    }
    PropStats { min_dev, min_at, mean_dev: kahan_sum(&devs) / devs.len() as f64 }
}

/// quantile ranks for every q of the grid: (lo, hi) 0-based ranks; None = error
fn impl_ranks(n: usize, q: f64, kind: Kind, level: f64, s: &mut Sink) -> Option<(Option<usize>, Option<usize>)> {
    s.calls += 1;
    let by_index = match quantile::ci_indices(conf(kind, level), n, q) {
        Ok(Interval::TwoSided(a, b)) => Some((Some(a), Some(b))),
        Ok(Interval::UpperOneSided(a)) => Some((Some(a), None)),
        Ok(Interval::LowerOneSided(b)) => Some((None, Some(b))),
        Err(_) => None,
    };
    // what a user gets from data: a scrambled sample whose values are their own ranks
    // (0..n), so that the returned elements are the ranks actually used; the coverage is
    // judged on those
    if n <= 6000 {
        let m = [7919usize, 7907, 104_729, 13, 1].into_iter().find(|m| gcd(*m, n) == 1).unwrap();
        let data: Vec<u32> = (0..n).map(|i| ((i * m + 3) % n) as u32).collect();
        s.calls += 1;
        let by_data = match mc::catch(std::panic::AssertUnwindSafe(|| quantile::ci(conf(kind, level), &data, q))) {
            Ok(Ok(Interval::TwoSided(a, b))) => Some((Some(a as usize), Some(b as usize))),
            Ok(Ok(Interval::UpperOneSided(a))) => Some((Some(a as usize), None)),
            Ok(Ok(Interval::LowerOneSided(b))) => Some((None, Some(b as usize))),
            _ => None,
        };
        if by_data != by_index {
            s.violation(format!("quantile/data-entry-point-uses-other-ranks/{}", kind.name()), format!("n={n} q={q} {} {level}: quantile::ci on a scrambled sample of the values 0..n returns the order statistics {by_data:?}, ci_indices designates {by_index:?}", kind.name()), json!({"check":"quantile","n":n,"q":q,"kind":kind,"level":level}));
        }
        return by_data;
    }
    by_index
}

fn gcd(a: usize, b: usize) -> usize {
    if b == 0 {
        a
    } else {
        gcd(b, a % b)
    }
}

fn oracle_ranks(n: usize, q: f64, kind: Kind, level: f64) -> Option<(Option<usize>, Option<usize>)> {
    let k = (q * n as f64).round() as usize;
    if k < 2 || n - k < 2 {
        return None;
    }
    let z = z_of(kind, level);
    let (lo, hi) = wilson_roots(n as f64, k as f64, z);
    let idx = |p: f64| ((p * n as f64).floor() as usize).min(n - 1);
    Some(match kind {
        Kind::Two => (Some(idx(lo)), Some(idx(hi))),
        Kind::Upper => (Some(idx(lo)), None),
        Kind::Lower => (None, Some(idx(hi))),
    })
}

/// distribution-free coverage of [X_(lo+1), X_(hi+1)] for the q-quantile: P(lo+1 <= B <= hi)
fn rank_coverage(r: (Option<usize>, Option<usize>), pmf: &[f64]) -> f64 {
    let a = r.0.map(|l| l + 1).unwrap_or(0);
    let b = r.1.unwrap_or(pmf.len() - 1);
    if a > b {
        return 0.0;
    }
    kahan_sum(&pmf[a..=b.min(pmf.len() - 1)])
}

fn q_grid(n: usize) -> Vec<f64> {
    (1..=192).map(|i| i as f64 / 193.0).filter(|q| q * n as f64 >= 10.0 && (1.0 - q) * n as f64 >= 10.0).collect()
}

fn prop_ns(tier: Tier) -> Vec<usize> {
    match tier {
        Tier::Quick => vec![40, 50, 64, 100, 128, 200, 400, 500, 1000],
        Tier::Thorough => (40..=160).chain([175, 200, 225, 250, 300, 350, 400, 450, 500, 600, 750, 1000, 1250, 1500, 2000, 2500, 3000, 4000, 5000, 6000]).collect(),
    }
}
fn quant_ns(tier: Tier) -> Vec<usize> {
    match tier {
        Tier::Quick => vec![30, 50, 100, 200, 500, 1000],
        Tier::Thorough => (30..=120).chain([135, 150, 175, 200, 250, 300, 400, 500, 750, 1000, 1500, 2000, 3000, 4000, 5000]).collect(),
    }
}

fn kidx(k: Kind) -> usize {
    KINDS.iter().position(|x| *x == k).unwrap()
}

fn judge_prop(n: usize, points: usize, s: &mut Sink) {
    let grid = p_grid(n, points);
    let pmfs: Vec<Vec<f64>> = grid.iter().map(|&p| binom_pmf_vec(n, p)).collect();
    for (li, &level, ratio_form) in LEVELS.iter().enumerate().flat_map(|(li, l)| [(li, l, false), (li, l, true)]) {
        let ivs = impl_prop_intervals(n, level, ratio_form, s);
        let via = if ratio_form { "ci_wilson_ratio(n, k/n)" } else { "ci(n, k)" };
        for kind in KINDS {
            s.evals += grid.len() as u64; // one exact coverage sum per (n, confidence, p)
            let iv = &ivs[kidx(kind)];
            let st = prop_stats(iv, n, level, &grid, &pmfs);
            let case = json!({"check":"proportion","n":n,"kind":kind,"level":level,"points":points});
            let slack = PROP_POINT[kidx(kind)][li];
            // sharper, n-specific form of the same criterion: the shortfall of the textbook
            // method at this very n (computed by the oracle from its own formula), +25 % + 0.002
            let om = prop_stats(&oracle_prop_intervals(n, kind, level), n, level, &grid, &pmfs);
            let slack_n = (1.25 * (-om.min_dev).max(0.0) + 0.002).min(slack);
            if !(st.min_dev >= -slack_n) {
                s.violation(
                    format!("proportion/pointwise-coverage-below-method-slack-at-n/{}/{}", kind.name(), level),
                    format!("n={n} {} {level} via {via}: exact coverage at p={} is {:.5}; the Wilson method itself bottoms out at {:.5} for this n (slack {slack_n:.4})", kind.name(), st.min_at, level + st.min_dev, level + om.min_dev),
                    json!({"check":"proportion","n":n,"kind":kind,"level":level,"points":points}),
                );
            }
            if !((st.mean_dev - om.mean_dev).abs() <= 0.0004) {
                s.violation(
                    format!("proportion/average-coverage-differs-from-method-at-n/{}/{}", kind.name(), level),
                    format!("n={n} {} {level} via {via}: mean exact coverage {:.5}, the Wilson method gives {:.5}", kind.name(), level + st.mean_dev, level + om.mean_dev),
                    json!({"check":"proportion","n":n,"kind":kind,"level":level,"points":points}),
                );
            }
            s.max(&format!("prop_pointwise_shortfall_over_slack[{}]", kind.name()), -st.min_dev / slack, || format!("n={n} L={level} p={}", st.min_at));
            s.max(&format!("prop_avg_dev_over_slack[{}]", kind.name()), st.mean_dev.abs() / PROP_AVG[kidx(kind)][li], || format!("n={n} L={level}"));
            s.outcome(&("prop", n, kind, li, ratio_form, (st.min_dev * 1e6) as i64));
            if !(st.min_dev >= -slack) {
                s.violation(
                    format!("proportion/pointwise-coverage-below-slack/{}/{}", kind.name(), level),
                    format!("n={n} {} {level}: exact coverage at p={} is {:.5} < {level} - {slack}", kind.name(), st.min_at, level + st.min_dev),
                    case.clone(),
                );
            }
            if !(st.mean_dev.abs() <= PROP_AVG[kidx(kind)][li]) {
                s.violation(
                    format!("proportion/average-coverage-off-nominal/{}/{}", kind.name(), level),
                    format!("n={n} {} {level}: mean exact coverage over p in [10/n, 1-10/n] is {:.5} (|dev| > {})", kind.name(), level + st.mean_dev, PROP_AVG[kidx(kind)][li]),
                    case,
                );
            }
        }
    }
}

fn judge_quant(n: usize, s: &mut Sink) {
    let grid = q_grid(n);
    if grid.is_empty() {
        return;
    }
    let pmfs: Vec<Vec<f64>> = grid.iter().map(|&q| binom_pmf_vec(n, q)).collect();
    // extreme quantiles: q*n (and (1-q)*n) from 1/2 to 9 1/2 in steps of 1/2. The grid is
    // not filtered by the oracle's admissibility: whatever the implementation answers with
    // an interval is judged for coverage.
    let ext: Vec<f64> = (1..=19).flat_map(|j| [j as f64 / (2 * n) as f64, 1.0 - j as f64 / (2 * n) as f64]).filter(|q| *q > 0.0 && *q < 1.0).collect();
    let ext_pmfs: Vec<Vec<f64>> = ext.iter().map(|&q| binom_pmf_vec(n, q)).collect();
    for &level in LEVELS.iter() {
        // the three kinds are requested one after the other for every q (see impl_prop_intervals)
        let mut cov = [vec![], vec![], vec![]];
        for (q, pmf) in grid.iter().zip(&pmfs) {
            for (i, kind) in KINDS.iter().enumerate() {
                cov[i].push(match impl_ranks(n, *q, *kind, level, s) {
                    Some(r) => rank_coverage(r, pmf),
                    None => 0.0,
                });
            }
        }
        let mut ext_cov = [vec![], vec![], vec![]];
        for (q, pmf) in ext.iter().zip(&ext_pmfs) {
            for (i, kind) in KINDS.iter().enumerate() {
                ext_cov[i].push(impl_ranks(n, *q, *kind, level, s).map(|r| rank_coverage(r, pmf)));
            }
        }
        for kind in KINDS {
            s.evals += grid.len() as u64; // one exact coverage sum per (n, confidence, q)
            let mut devs = vec![];
            let case = json!({"check":"quantile","n":n,"kind":kind,"level":level});
            for ((q, pmf), c) in grid.iter().zip(&pmfs).zip(&cov[kidx(kind)]) {
                let atom = pmf.iter().cloned().fold(0.0, f64::max);
                let c = *c;
                let d = c - level;
                devs.push(d);
                let lim = QUANT_ATOMS[kidx(kind)] * atom;
                s.max(&format!("quant_pointwise_dev_over_slack[{}]", kind.name()), d.abs() / lim, || format!("n={n} q={q} L={level}"));
                if !(d.abs() <= lim) {
                    s.violation(
                        format!("quantile/pointwise-coverage-outside-slack/{}/{}", kind.name(), level),
                        format!("n={n} q={q} {} {level}: distribution-free coverage {:.5}, |dev| > {} atoms ({:.5})", kind.name(), c, QUANT_ATOMS[kidx(kind)], lim),
                        case.clone(),
                    );
                }
            }
            let mean = kahan_sum(&devs) / devs.len() as f64;
            s.outcome(&("quant", n, kind, (mean * 1e6) as i64));
            // n-specific form: the mean coverage of the Wilson-rank method itself at this n
            // (from the oracle's own ranks); the implementation's may differ by 0.002 at most
            let odevs: Vec<f64> = grid.iter().zip(&pmfs).map(|(q, pmf)| oracle_ranks(n, *q, kind, level).map(|r| rank_coverage(r, pmf)).unwrap_or(0.0) - level).collect();
            let omean = kahan_sum(&odevs) / odevs.len() as f64;
            if !((mean - omean).abs() <= 0.002) {
                s.violation(
                    format!("quantile/average-coverage-differs-from-method-at-n/{}/{}", kind.name(), level),
                    format!("n={n} {} {level}: mean coverage over q is {:.5}, the Wilson-rank method gives {:.5}", kind.name(), level + mean, level + omean),
                    case.clone(),
                );
            }
            if n >= 100 {
                let lim = QUANT_AVG[kidx(kind)] / (n as f64).sqrt();
                s.max(&format!("quant_avg_dev_over_slack[{}]", kind.name()), mean.abs() / lim, || format!("n={n} L={level}"));
                if !(mean.abs() <= lim) {
                    s.violation(
                        format!("quantile/average-coverage-off-nominal/{}/{}", kind.name(), level),
                        format!("n={n} {} {level}: mean coverage over q is {:.5}, |dev| > {:.5}", kind.name(), level + mean, lim),
                        case.clone(),
                    );
                }
            }
            // extreme quantiles: where the textbook method has an interval the implementation's
            // coverage must be the method's (within one lattice atom); where it has none, an
            // interval that is returned all the same must not cover worse than the method's own
            // worst point on this extreme grid (+25 % + 0.002)
            let oracle: Vec<Option<f64>> = ext.iter().zip(&ext_pmfs).map(|(q, pmf)| oracle_ranks(n, *q, kind, level).map(|r| rank_coverage(r, pmf))).collect();
            let method_worst = oracle.iter().flatten().map(|c| c - level).fold(0.0f64, f64::min);
            for (((q, pmf), got), want) in ext.iter().zip(&ext_pmfs).zip(&ext_cov[kidx(kind)]).zip(&oracle) {
                s.evals += 1;
                let Some(c) = *got else {
                    s.skipped += 1; // rejected by the implementation: nothing claims coverage
                    continue;
                };
                let atom = pmf.iter().cloned().fold(0.0, f64::max);
                s.outcome(&("quant-ext", kind, want.is_some()));
                match want {
                    Some(w) => {
                        if !((c - w).abs() <= atom + 1e-12) {
                            s.violation(
                                format!("quantile/extreme-q/coverage-differs-from-method/{}/{}", kind.name(), level),
                                format!("n={n} q={q} {} {level}: coverage {c:.5}, the Wilson-rank method gives {w:.5} (atom {atom:.5})", kind.name()),
                                case.clone(),
                            );
                        }
                    }
                    None => {
                        let floor = 1.25 * method_worst - 0.002;
                        if !(c - level >= floor) {
                            s.violation(
                                format!("quantile/extreme-q/interval-without-coverage/{}/{}", kind.name(), level),
                                format!("n={n} q={q} {} {level}: an interval is returned whose distribution-free coverage is {c:.5}; the method (which has no interval here) never falls below {:.5} on this n", kind.name(), level + method_worst),
                                case.clone(),
                            );
                        }
                    }
                }
            }
        }
    }
}

/// print the method's own numbers (oracle Wilson only; the implementation is not consulted)
fn calibrate() {
    let mut pt = [[0.0f64; 4]; 3];
    let mut av = [[0.0f64; 4]; 3];
    for n in prop_ns(Tier::Thorough) {
        let grid = p_grid(n, 2001);
        let pmfs: Vec<Vec<f64>> = grid.iter().map(|&p| binom_pmf_vec(n, p)).collect();
        for kind in KINDS {
            for (li, &level) in LEVELS.iter().enumerate() {
                let iv = oracle_prop_intervals(n, kind, level);
                let st = prop_stats(&iv, n, level, &grid, &pmfs);
                pt[kidx(kind)][li] = pt[kidx(kind)][li].max(-st.min_dev);
                av[kidx(kind)][li] = av[kidx(kind)][li].max(st.mean_dev.abs());
                println!("prop n={n:5} {:9} L={level}: min dev {:+.5} at p={:.4}; mean dev {:+.5}", kind.name(), st.min_dev, st.min_at, st.mean_dev);
            }
        }
    }
    println!("PROP_POINT measured (max shortfall): {pt:?}");
    println!("PROP_AVG measured (max |mean dev|): {av:?}");
    let mut qa = [0.0f64; 3];
    let mut qv = [0.0f64; 3];
    for n in quant_ns(Tier::Thorough) {
        let grid = q_grid(n);
        for kind in KINDS {
            for &level in LEVELS.iter() {
                let mut devs = vec![];
                let mut worst = 0.0f64;
                for &q in &grid {
                    let pmf = binom_pmf_vec(n, q);
                    let atom = pmf.iter().cloned().fold(0.0, f64::max);
                    let c = oracle_ranks(n, q, kind, level).map(|r| rank_coverage(r, &pmf)).unwrap_or(0.0);
                    devs.push(c - level);
                    worst = worst.max((c - level).abs() / atom);
                }
                let mean = kahan_sum(&devs) / devs.len().max(1) as f64;
                qa[kidx(kind)] = qa[kidx(kind)].max(worst);
                if n >= 100 {
                    qv[kidx(kind)] = qv[kidx(kind)].max(mean.abs() * (n as f64).sqrt());
                }
                println!("quant n={n:5} {:9} L={level}: worst |dev| {:.3} atoms; mean dev {:+.5} (x sqrt n = {:+.3})", kind.name(), worst, mean, mean * (n as f64).sqrt());
            }
        }
    }
    println!("QUANT_ATOMS measured: {qa:?}");
    println!("QUANT_AVG measured (|mean|*sqrt n, n>=100): {qv:?}");
}

enum Job {
    Prop(usize, usize),
    Quant(usize),
}

/// One population beyond 2^32 (the statement has no upper bound on n): the binomial weights
/// are built by the ratio recurrence outwards from the mode until they fall below 1e-22 of
/// the mode's and normalised, so the sum over the window is the exact coverage up to ~1e-15;
/// the window is +-9.5 standard deviations. Every count in the window goes through the real
/// `proportion::ci`, the three kinds one after the other.
const HUGE_N: usize = (1 << 32) + (1 << 20) + 3;
const HUGE_P: [f64; 2] = [0.3, 0.9];

fn judge_prop_huge(n: usize, p: f64, s: &mut Sink) {
    let nf = n as f64;
    let mode = ((nf + 1.0) * p).floor() as usize;
    let q = 1.0 - p;
    let mut up = vec![1.0f64]; // weights at mode, mode+1, ...
    let mut k = mode;
    while *up.last().unwrap() > 1e-22 && k < n {
        let w = up.last().unwrap() * ((n - k) as f64 / (k + 1) as f64) * (p / q);
        up.push(w);
        k += 1;
    }
    let mut down = vec![]; // weights at mode-1, mode-2, ...
    let mut w = 1.0f64;
    let mut k = mode;
    while w > 1e-22 && k > 0 {
        w *= (k as f64 / (n - k + 1) as f64) * (q / p);
        down.push(w);
        k -= 1;
    }
    let lo_k = mode - down.len();
    let weights: Vec<f64> = down.iter().rev().cloned().chain(up.iter().cloned()).collect();
    let total = kahan_sum(&weights);
    for &level in LEVELS.iter() {
        let mut covered: [Vec<f64>; 3] = [vec![], vec![], vec![]];
        for (i, w) in weights.iter().enumerate() {
            let k = lo_k + i;
            for (ki, kind) in KINDS.iter().enumerate() {
                s.calls += 1;
                let r = mc::catch(std::panic::AssertUnwindSafe(|| proportion::ci(conf(*kind, level), n, k)));
                let inside = match r {
                    Ok(Ok(Interval::TwoSided(a, b))) => a <= p && p <= b,
                    Ok(Ok(Interval::UpperOneSided(a))) => a <= p,
                    Ok(Ok(Interval::LowerOneSided(b))) => p <= b,
                    _ => false,
                };
                if inside {
                    covered[ki].push(*w);
                }
            }
        }
        for (ki, kind) in KINDS.iter().enumerate() {
            s.evals += 1;
            let c = kahan_sum(&covered[ki]) / total;
            let slack = PROP_POINT[ki][LEVELS.iter().position(|l| *l == level).unwrap()];
            s.outcome(&("prop-huge", *kind, level.to_bits()));
            s.max("prop_huge_abs_dev", (c - level).abs(), || format!("n={n} p={p} {} {level}", kind.name()));
            if !(c - level >= -slack) {
                s.violation(
                    format!("proportion/huge-population-coverage-below-slack/{}/{}", kind.name(), level),
                    format!("n={n} p={p} {} {level}: exact coverage over the {} outcomes within 9.5 sd of np is {c:.5}", kind.name(), weights.len()),
                    json!({"check":"proportion-huge","n":n,"p":p,"kind":kind,"level":level}),
                );
            }
        }
    }
}

fn run(tier: Tier) -> Sink {
    let points = 2001;
    let mut jobs: Vec<Job> = prop_ns(tier).into_iter().rev().map(|n| Job::Prop(n, points)).collect();
    jobs.extend(quant_ns(tier).into_iter().rev().map(Job::Quant));
    let s = par_judge(&jobs, |j, s| match j {
        Job::Prop(n, pts) => judge_prop(*n, *pts, s),
        Job::Quant(n) => judge_quant(*n, s),
    });
    let h = par_judge(&HUGE_P, |p, s| judge_prop_huge(HUGE_N, *p, s));
    s.merge(h)
}

fn replay_case(case: &Value, s: &mut Sink) {
    let n = case["n"].as_u64().unwrap() as usize;
    if case["check"] == "proportion-huge" {
        judge_prop_huge(n, case["p"].as_f64().unwrap(), s)
    } else if case["check"] == "proportion" {
        judge_prop(n, case["points"].as_u64().unwrap_or(2001) as usize, s)
    } else {
        judge_quant(n, s)
    }
}

fn main() {
    if std::env::args().nth(1).as_deref() == Some("calibrate") {
        calibrate();
        return;
    }
    let (cmd, tier) = mc::parse_args();
    if let Cmd::Replay(p) = cmd {
        std::process::exit(mc::report::replay_main(P, &p, replay_case));
    }
    let mut rep = Report::new(P, tier);
    let st = mc::selftest::run();
    rep.note("oracle_selftest", st.to_json());
    rep.require(st.ok, &format!("oracle self-test failed: {}", st.msg));
    let mut s = run(tier);
    s.sample(json!({"check":"proportion","n":100,"kind":"Two","level":0.95,"what":"C(n,p) = sum_k pmf(k;n,p) [lo_k <= p <= hi_k] over all 101 outcomes, for every p of the grid in [0.1, 0.9]"}));
    s.sample(json!({"check":"quantile","n":200,"kind":"Upper","level":0.9,"what":"P(B >= lo+1), B~Bin(200,q), ranks from ci_indices, q = i/193 with nq, n(1-q) >= 10"}));
    rep.note("slack_table", json!({"PROP_POINT":PROP_POINT,"PROP_AVG":PROP_AVG,"QUANT_ATOMS":QUANT_ATOMS,"QUANT_AVG":QUANT_AVG,"levels":LEVELS,"kinds":["two-sided","upper","lower"]}));
    rep.rule = format!("proportion: n in {:?}, all outcomes k=0..n through proportion::ci and through ci_wilson_ratio(n, k/n) (Err = no cover), {} p values in [10/n, 1-10/n], levels {:?} x 3 kinds, plus the population 2^32+2^20+3 at p in {{0.3, 0.9}} summed over all outcomes within 9.5 sd of np; quantile: n in {:?}, q = i/193 with nq,n(1-q)>=10 and the extreme grid q n = 1/2..9 1/2 (coverage of whatever is returned), ranks from quantile::ci_indices and, for n <= 6000, from quantile::ci on a scrambled sample whose values are their own ranks (both must designate the same order statistics; the coverage is judged on what the data entry point returns); coverage is an exact sum over all outcomes; distinct by (n, kind, level, coverage statistic)", prop_ns(tier), 2001, LEVELS, quant_ns(tier));
    rep.assume("slack constants are properties of the textbook Wilson method computed by the oracle (c12 calibrate) with +25% margin; they are frozen in c12_*.in and never derived from the implementation");
    rep.assume("binomial pmf from the oracle's recurrence, self-tested against mpmath");
    rep.require(s.distinct() >= 20, "fewer than 20 distinct coverage statistics: vacuous");
    std::process::exit(rep.finish(s));
}
