//! C13 — interval arithmetic is sound and tight for the denoted sets.
//! Closure search: BFS over real `Interval` values; every transition is a real operator
//! call judged for soundness (every member's image is a member), tightness (every finite
//! bound is attained), well-formedness and exact (un)boundedness.

use mc::explore::Bfs;
use mc::{json, Cmd, Report, Sink, Tier, Value};
use stats_ci::Interval;
use std::fmt::Debug;
use std::ops::Neg;
use std::panic::AssertUnwindSafe;

const P: &str = "C13";

trait N: Copy + PartialOrd + Debug + Send + Sync + num_traits::Num + Neg<Output = Self> + 'static {
    fn f(self) -> f64;
}
impl N for i32 {
    fn f(self) -> f64 {
        self as f64
    }
}
impl N for i64 {
    fn f(self) -> f64 {
        self as f64
    }
}
impl N for f64 {
    fn f(self) -> f64 {
        self
    }
}
impl N for f32 {
    fn f(self) -> f64 {
        self as f64
    }
}

struct Dom<T: N> {
    name: &'static str,
    grid: Vec<T>,
    scalars: Vec<T>,
    /// step used to generate members of unbounded sides / interiors
    unit: T,
    far: T,
    boxlim: T,
}

#[derive(Clone, Copy, Debug, PartialEq, serde::Serialize, serde::Deserialize)]
enum Act {
    AddK(usize),
    SubK(usize),
    MulK(usize),
    DivK(usize),
    Neg,
    AddIv(usize),
    SubIv(usize),
    RevAddIv(usize),
    RevSubIv(usize),
}

fn kind<T: PartialOrd>(iv: &Interval<T>) -> &'static str {
    match iv {
        Interval::TwoSided(..) => "TwoSided",
        Interval::UpperOneSided(_) => "Upper",
        Interval::LowerOneSided(_) => "Lower",
    }
}

/// (has finite low, low, has finite high, high)
fn parts<T: N>(iv: &Interval<T>) -> (Option<T>, Option<T>) {
    match iv {
        Interval::TwoSided(a, b) => (Some(*a), Some(*b)),
        Interval::UpperOneSided(a) => (Some(*a), None),
        Interval::LowerOneSided(b) => (None, Some(*b)),
    }
}

fn member<T: N>(iv: &Interval<T>, x: T) -> bool {
    let (lo, hi) = parts(iv);
    lo.map(|l| l <= x).unwrap_or(true) && hi.map(|h| x <= h).unwrap_or(true)
}

fn members<T: N>(d: &Dom<T>, iv: &Interval<T>) -> Vec<T> {
    let mut v = vec![];
    match parts(iv) {
        (Some(a), Some(b)) => {
            let mut x = a;
            let mut n = 0;
            while x <= b && n < 40 {
                v.push(x);
                x = x + d.unit;
                n += 1;
            }
            v.push(b);
            for &g in &d.grid {
                if a <= g && g <= b {
                    v.push(g);
                }
            }
        }
        (Some(a), None) => {
            v.extend([a, a + d.unit, a + d.unit + d.unit, a + d.far]);
        }
        (None, Some(b)) => {
            v.extend([b, b - d.unit, b - d.unit - d.unit, b - d.far]);
        }
        _ => {}
    }
    v
}

fn seeds<T: N>(d: &Dom<T>) -> Vec<Interval<T>> {
    let mut v = vec![];
    for &a in &d.grid {
        for &b in &d.grid {
            if a <= b {
                v.push(Interval::TwoSided(a, b));
            }
        }
    }
    for &a in &d.grid {
        v.push(Interval::UpperOneSided(a));
    }
    for &a in &d.grid {
        v.push(Interval::LowerOneSided(a));
    }
    v
}

fn actions<T: N>(d: &Dom<T>, nseeds: usize) -> Vec<Act> {
    let mut v = vec![Act::Neg];
    for k in 0..d.scalars.len() {
        v.push(Act::AddK(k));
        v.push(Act::SubK(k));
        v.push(Act::MulK(k));
        if !d.scalars[k].is_zero() {
            v.push(Act::DivK(k));
        }
    }
    for i in 0..nseeds {
        v.extend([Act::AddIv(i), Act::SubIv(i), Act::RevAddIv(i), Act::RevSubIv(i)]);
    }
    v
}

fn key<T: N>(iv: &Interval<T>) -> (u8, u64, u64) {
    let (lo, hi) = parts(iv);
    let b = |x: Option<T>| x.map(|v| v.f().to_bits()).unwrap_or(u64::MAX);
    let k = match iv {
        Interval::TwoSided(..) => 0,
        Interval::UpperOneSided(_) => 1,
        Interval::LowerOneSided(_) => 2,
    };
    (k, b(lo), b(hi))
}

/// Apply an action through the real operators and judge the transition.
fn step<T: N>(d: &Dom<T>, sd: &[Interval<T>], a: &Interval<T>, act: &Act, s: &mut Sink) -> Option<Interval<T>> {
    let a = *a;
    s.evals += 1;
    s.calls += 1;
    // the unary image function and its monotonicity, or the binary operands
    enum Op<T: N> {
        Un(Box<dyn Fn(T) -> T>, i8), // +1 increasing, -1 decreasing, 0 constant
        Bin(Interval<T>, Interval<T>, bool), // lhs, rhs, is_sub
    }
    let (op, opname, scalar): (Op<T>, &str, Option<T>) = match *act {
        Act::AddK(k) => {
            let k = d.scalars[k];
            (Op::Un(Box::new(move |x| x + k), 1), "add_scalar", Some(k))
        }
        Act::SubK(k) => {
            let k = d.scalars[k];
            (Op::Un(Box::new(move |x| x - k), 1), "sub_scalar", Some(k))
        }
        Act::MulK(k) => {
            let k = d.scalars[k];
            let m = if k > T::zero() { 1 } else if k < T::zero() { -1 } else { 0 };
            (Op::Un(Box::new(move |x| x * k), m), "mul_scalar", Some(k))
        }
        Act::DivK(k) => {
            let k = d.scalars[k];
            let m = if k > T::zero() { 1 } else { -1 };
            (Op::Un(Box::new(move |x| x / k), m), "div_scalar", Some(k))
        }
        Act::Neg => (Op::Un(Box::new(move |x| -x), -1), "neg", None),
        Act::AddIv(i) => (Op::Bin(a, sd[i], false), "add_interval", None),
        Act::SubIv(i) => (Op::Bin(a, sd[i], true), "sub_interval", None),
        Act::RevAddIv(i) => (Op::Bin(sd[i], a, false), "add_interval", None),
        Act::RevSubIv(i) => (Op::Bin(sd[i], a, true), "sub_interval", None),
    };
    let case = || json!({"dom": d.name, "a": format!("{a:?}"), "a_key": key(&a), "act": act});
    let sgn = |k: Option<T>| match k {
        Some(k) if k > T::zero() => "positive",
        Some(k) if k < T::zero() => "negative",
        Some(_) => "zero",
        None => "-",
    };
    let res = mc::catch(AssertUnwindSafe(|| match *act {
        Act::AddK(k) => a + d.scalars[k],
        Act::SubK(k) => a - d.scalars[k],
        Act::MulK(k) => a * d.scalars[k],
        Act::DivK(k) => a / d.scalars[k],
        Act::Neg => -a,
        Act::AddIv(i) => a + sd[i],
        Act::SubIv(i) => a - sd[i],
        Act::RevAddIv(i) => sd[i] + a,
        Act::RevSubIv(i) => sd[i] - a,
    }));
    // expected unboundedness of the true image
    let (exp_below, exp_above, lhs_rhs) = match &op {
        Op::Un(_, m) => {
            let (lo, hi) = parts(&a);
            let (b, ab) = (lo.is_none(), hi.is_none());
            match m {
                1 => (b, ab, None),
                -1 => (ab, b, None),
                _ => (false, false, None),
            }
        }
        Op::Bin(l, r, is_sub) => {
            let (ll, lh) = parts(l);
            let (rl, rh) = parts(r);
            let (r_below, r_above) = if *is_sub { (rh.is_none(), rl.is_none()) } else { (rl.is_none(), rh.is_none()) };
            (ll.is_none() || r_below, lh.is_none() || r_above, Some((*l, *r)))
        }
    };
    let whole_line = exp_below && exp_above;
    let ksig = match &op {
        Op::Un(..) => format!("{opname}/{}/{}", kind(&a), sgn(scalar)),
        Op::Bin(l, r, _) => format!("{opname}/{}x{}", kind(l), kind(r)),
    };
    let r = match res {
        Err(msg) => {
            s.outcome(&(&ksig, "panic"));
            if !whole_line {
                s.violation(format!("{ksig}/unexpected-panic"), format!("{a:?} {act:?} panicked: {msg}"), case());
            } else {
                s.count("documented-panics", 1);
            }
            return None;
        }
        Ok(r) => r,
    };
    s.outcome(&(&ksig, kind(&r)));
    if whole_line {
        s.violation(format!("{ksig}/no-panic-for-all-values-image"), format!("{a:?} {act:?} = {r:?} but the image is the whole line (documented panic)"), case());
        return None;
    }
    let (rlo, rhi) = parts(&r);
    // well-formed
    if let (Some(l), Some(h)) = (rlo, rhi) {
        if !(l <= h) {
            s.violation(format!("{ksig}/inverted"), format!("{a:?} {act:?} = {r:?} has low > high"), case());
            return None;
        }
    }
    // unbounded exactly where the image is
    if rlo.is_none() != exp_below || rhi.is_none() != exp_above {
        s.violation(
            format!("{ksig}/wrong-unbounded-side"),
            format!("{a:?} {act:?} = {r:?}: image unbounded below={exp_below} above={exp_above}"),
            case(),
        );
    }
    // soundness and tightness
    let mut images: Vec<T> = vec![];
    match &op {
        Op::Un(f, _) => {
            for x in members(d, &a) {
                images.push(f(x));
            }
        }
        Op::Bin(l, rr, is_sub) => {
            let _ = lhs_rhs;
            for x in members(d, l) {
                for y in members(d, rr) {
                    images.push(if *is_sub { x - y } else { x + y });
                }
            }
        }
    }
    for &im in &images {
        if !member(&r, im) {
            s.violation(format!("{ksig}/unsound"), format!("{a:?} {act:?} = {r:?} does not contain the image {im:?} of a member"), case());
            break;
        }
    }
    for b in [rlo, rhi].into_iter().flatten() {
        if !images.iter().any(|&im| im == b) {
            s.violation(format!("{ksig}/not-tight"), format!("{a:?} {act:?} = {r:?}: bound {b:?} is not attained by any member image"), case());
        }
    }
    // stay inside the box for expansion
    let inside = |x: Option<T>| x.map(|v| -d.boxlim <= v && v <= d.boxlim).unwrap_or(true);
    if inside(rlo) && inside(rhi) {
        Some(r)
    } else {
        None
    }
}

fn run_dom<T: N>(d: &Dom<T>, depth: usize, s: &mut Sink) -> (u64, u64) {
    let sd = seeds(d);
    let acts = actions(d, sd.len());
    let bfs = Bfs {
        actions: &|_: &Interval<T>| acts.clone(),
        step: &|a: &Interval<T>, act: &Act, sink: &mut Sink| step(d, &sd, a, act, sink),
        key: &|a: &Interval<T>| key(a),
        check: &|_: &Interval<T>, _: &mut Sink| {},
        max_depth: depth,
        max_states: 2_000_000,
    };
    let st = bfs.run(sd.clone(), s);
    s.count(&format!("states[{}]", d.name), st.states);
    s.count(&format!("transitions[{}]", d.name), st.transitions);
    (st.states, st.transitions)
}

fn dom_i32() -> Dom<i32> {
    Dom { name: "i32", grid: (-4..=4).collect(), scalars: (-3..=3).collect(), unit: 1, far: 1000, boxlim: 64 }
}
fn dom_i64() -> Dom<i64> {
    Dom { name: "i64", grid: (-3..=3).collect(), scalars: vec![-7, -1, 0, 1, 2, 5], unit: 1, far: 100_000, boxlim: 50 }
}
fn dom_f64() -> Dom<f64> {
    Dom { name: "f64", grid: vec![-4.0, -1.5, -0.5, 0.0, 0.5, 1.0, 3.0], scalars: vec![-3.0, -2.0, -0.5, 0.0, 0.5, 2.0, 3.0], unit: 0.25, far: 1024.0, boxlim: 64.0 }
}
fn dom_f32() -> Dom<f32> {
    Dom { name: "f32", grid: vec![-4.0, -1.5, 0.0, 0.5, 3.0], scalars: vec![-2.0, -0.5, 0.0, 0.5, 3.0], unit: 0.25, far: 1024.0, boxlim: 64.0 }
}

/// relative_to: non-negative TwoSided/Upper against strictly positive TwoSided/Upper.
fn relative_to_checks(s: &mut Sink) {
    let xs = [0.0, 0.5, 1.0, 2.0, 4.0, 8.0];
    let rs = [0.5, 1.0, 2.0, 4.0, 8.0];
    let mk = |g: &[f64]| {
        let mut v = vec![];
        for &a in g {
            for &b in g {
                if a <= b {
                    v.push(Interval::TwoSided(a, b));
                }
            }
            v.push(Interval::UpperOneSided(a));
        }
        v
    };
    let mem = |iv: &Interval<f64>, g: &[f64]| -> Vec<f64> {
        match iv {
            Interval::TwoSided(a, b) => {
                let mut v = vec![*a, *b, (a + b) / 2.0];
                v.extend(g.iter().filter(|x| a <= *x && *x <= b));
                v
            }
            Interval::UpperOneSided(a) => vec![*a, a + 1.0, a * 2.0 + 1.0, a + 4096.0],
            Interval::LowerOneSided(b) => vec![*b],
        }
    };
    for x in mk(&xs) {
        for r in mk(&rs) {
            s.evals += 1;
            s.calls += 1;
            let case = json!({"check":"relative_to","self":format!("{x:?}"),"reference":format!("{r:?}")});
            let both_upper = x.is_upper() && r.is_upper();
            let res = mc::catch(AssertUnwindSafe(|| x.relative_to(&r)));
            let sig = format!("relative_to/{}-vs-{}", kind(&x), kind(&r));
            match res {
                Err(m) => {
                    s.outcome(&(&sig, "panic"));
                    if !both_upper {
                        s.violation(format!("{sig}/unexpected-panic"), format!("{x:?}.relative_to({r:?}) panicked: {m}"), case);
                    } else {
                        s.count("documented-panics", 1);
                    }
                }
                Ok(res) => {
                    s.outcome(&(&sig, kind(&res)));
                    if both_upper {
                        // image (x-r)/r for x>=a, r>=b is unbounded above and bounded below by -1 (not attained): any interval is either unsound or not tight; documented panic expected
                        s.violation(format!("{sig}/no-panic-same-direction"), format!("{x:?}.relative_to({r:?}) = {res:?}"), case);
                        continue;
                    }
                    let (lo, hi) = parts(&res);
                    if let (Some(l), Some(h)) = (lo, hi) {
                        if !(l <= h) {
                            s.violation(format!("{sig}/inverted"), format!("{x:?}.relative_to({r:?}) = {res:?}"), case.clone());
                        }
                    }
                    let mut images = vec![];
                    for xm in mem(&x, &xs) {
                        for rm in mem(&r, &rs) {
                            images.push((xm - rm) / rm);
                        }
                    }
                    if let Some(bad) = images.iter().find(|&&im| !member(&res, im)) {
                        s.violation(format!("{sig}/unsound"), format!("{x:?}.relative_to({r:?}) = {res:?} misses (x-r)/r = {bad}"), case.clone());
                    }
                    for b in [lo, hi].into_iter().flatten() {
                        if !images.iter().any(|&im| im == b) {
                            s.violation(format!("{sig}/not-tight"), format!("{x:?}.relative_to({r:?}) = {res:?}: bound {b} not attained"), case.clone());
                        }
                    }
                }
            }
        }
    }
    // documented panics for zero references
    for r in [Interval::TwoSided(0.0, 1.0), Interval::UpperOneSided(0.0), Interval::LowerOneSided(0.0), Interval::TwoSided(-1.0, 0.0)] {
        s.calls += 1;
        let x = Interval::TwoSided(1.0, 2.0);
        if mc::catch(AssertUnwindSafe(|| x.relative_to(&r))).is_ok() {
            s.violation("relative_to/zero-reference-no-panic", format!("{x:?}.relative_to({r:?}) did not panic"), json!({"check":"relative_to_zero","reference":format!("{r:?}")}));
        } else {
            s.count("documented-panics", 1);
        }
    }
}

/// relative_to on values that are NOT exactly representable ratios, including nearly equal
/// operand / reference bounds (where a numerically careless formula cancels): the returned
/// bounds must enclose the exact ratios (x-r)/r of the corner members up to 4 ulp of the
/// ratio, and be attained to the same accuracy.
fn relative_to_numeric<F: vcheck::Fl>(s: &mut Sink) {
    use mc::exact::{q, to_f64};
    let xs: Vec<F> = [0.0, 0.1, 0.3, 1.1, 2.0, 3.0, 3.0 + 4.0 * F::U * 3.0, 3.0 + 64.0 * F::U * 3.0, 7.3, 1e6 + 0.5].iter().map(|&v| F::of(v)).collect();
    let rs: Vec<F> = [0.1, 0.3, 1.1, 2.0, 3.0, 4.0, 7.3, 1e6].iter().map(|&v| F::of(v)).collect();
    let mk = |g: &[F]| {
        let mut v = vec![];
        for &a in g {
            for &b in g {
                if a <= b {
                    v.push(Interval::TwoSided(a, b));
                }
            }
            v.push(Interval::UpperOneSided(a));
        }
        v
    };
    let exact = |x: F, r: F| to_f64(&((q(x.f()) - q(r.f())) / q(r.f())));
    for x in mk(&xs) {
        for r in mk(&rs) {
            if x.is_upper() && r.is_upper() {
                continue;
            }
            s.evals += 1;
            s.calls += 1;
            let case = json!({"check":"relative_to_numeric","type":F::NAME,"self":format!("{x:?}"),"reference":format!("{r:?}")});
            let Ok(res) = mc::catch(AssertUnwindSafe(|| x.relative_to(&r))) else {
                s.violation(format!("relative_to/{}/unexpected-panic", F::NAME), format!("{x:?}.relative_to({r:?})"), case);
                continue;
            };
            // extreme members: smallest ratio = (x_low - r_high)/r_high, largest = (x_high - r_low)/r_low
            let (xl, xh) = match x {
                Interval::TwoSided(a, b) => (Some(a), Some(b)),
                Interval::UpperOneSided(a) => (Some(a), None),
                Interval::LowerOneSided(b) => (None, Some(b)),
            };
            let (rl, rh) = match r {
                Interval::TwoSided(a, b) => (Some(a), Some(b)),
                Interval::UpperOneSided(a) => (Some(a), None),
                Interval::LowerOneSided(b) => (None, Some(b)),
            };
            let want_lo = match (xl, rh) {
                (Some(a), Some(b)) => Some(exact(a, b)),
                _ => None,
            };
            let want_hi = match (xh, rl) {
                (Some(a), Some(b)) => Some(exact(a, b)),
                _ => None,
            };
            let (glo, ghi) = match res {
                Interval::TwoSided(a, b) => (Some(a.f()), Some(b.f())),
                Interval::UpperOneSided(a) => (Some(a.f()), None),
                Interval::LowerOneSided(b) => (None, Some(b.f())),
            };
            s.outcome(&("relnum", F::NAME, kind(&x), kind(&r), kind(&res)));
            let close = |g: f64, w: f64| (g - w).abs() <= 4.0 * F::U * w.abs() + f64::MIN_POSITIVE;
            for (name, g, w) in [("low", glo, want_lo), ("high", ghi, want_hi)] {
                match (g, w) {
                    (Some(g), Some(w)) => {
                        s.max(&format!("relative_to_err_ulps[{}]", F::NAME), if w == 0.0 { 0.0 } else { (g - w).abs() / (F::U * w.abs()) }, || format!("{x:?} vs {r:?}"));
                        if !close(g, w) {
                            s.violation(
                                format!("relative_to/{}/{name}-bound-inaccurate", F::NAME),
                                format!("{x:?}.relative_to({r:?}) = {res:?}: the extreme member ratio (x-r)/r is {w:?} (error {:.1} ulp: not enclosed / not attained)", (g - w).abs() / (F::U * w.abs().max(f64::MIN_POSITIVE))),
                                case.clone(),
                            );
                        }
                    }
                    (None, None) => {}
                    // an unbounded side where a finite extreme exists is sound but not attained;
                    // a finite bound where the image is unbounded is unsound
                    (Some(_), None) => s.violation(format!("relative_to/{}/bounded-where-image-unbounded", F::NAME), format!("{x:?}.relative_to({r:?}) = {res:?}"), case.clone()),
                    (None, Some(_)) => {}
                }
            }
        }
    }
}

fn run_everything(tier: Tier, s: &mut Sink) -> (u64, u64) {
    let depth = tier.pick(3, 5);
    let mut st = (0, 0);
    let add = |a: (u64, u64), b: (u64, u64)| (a.0 + b.0, a.1 + b.1);
    st = add(st, run_dom(&dom_i32(), depth, s));
    st = add(st, run_dom(&dom_f64(), depth, s));
    st = add(st, run_dom(&dom_i64(), 2, s));
    st = add(st, run_dom(&dom_f32(), 2, s));
    relative_to_checks(s);
    relative_to_numeric::<f64>(s);
    relative_to_numeric::<f32>(s);
    st
}

fn replay_case(case: &Value, s: &mut Sink) {
    if case["check"].as_str().map(|c| c.starts_with("relative_to")).unwrap_or(false) {
        relative_to_checks(s);
        relative_to_numeric::<f64>(s);
        relative_to_numeric::<f32>(s);
        return;
    }
    let act: Act = serde_json::from_value(case["act"].clone()).unwrap();
    let k: (u8, u64, u64) = serde_json::from_value(case["a_key"].clone()).unwrap();
    macro_rules! go {
        ($d:expr, $t:ty) => {{
            let d = $d;
            let sd = seeds(&d);
            let v = |b: u64| f64::from_bits(b) as $t;
            let a = match k.0 {
                0 => Interval::TwoSided(v(k.1), v(k.2)),
                1 => Interval::UpperOneSided(v(k.1)),
                _ => Interval::LowerOneSided(v(k.2)),
            };
            step(&d, &sd, &a, &act, s);
        }};
    }
    match case["dom"].as_str().unwrap_or("") {
        "i32" => go!(dom_i32(), i32),
        "i64" => go!(dom_i64(), i64),
        "f64" => go!(dom_f64(), f64),
        "f32" => go!(dom_f32(), f32),
        _ => eprintln!("unknown domain"),
    }
}

fn main() {
    let (cmd, tier) = mc::parse_args();
    mc::quiet_panics();
    if let Cmd::Replay(p) = cmd {
        std::process::exit(mc::report::replay_main(P, &p, replay_case));
    }
    let mut rep = Report::new(P, tier);
    let mut s = Sink::new();
    let (states, _tr) = run_everything(tier, &mut s);
    rep.states = Some(states);
    s.sample(json!({"dom":"i32","a":"UpperOneSided(2)","act":{"AddK":4},"expect":"[3,->): members 2,3,4,1002 map inside; bound 3 attained; unbounded above only"}));
    s.sample(json!({"dom":"f64","a":"TwoSided(-1.5, 3.0)","act":{"MulK":0},"expect":"scalar -3: [-9, 4.5], well-formed"}));
    s.sample(json!({"dom":"i32","a":"LowerOneSided(-4)","act":{"RevSubIv":50},"expect":"seed - (<-,-4]: unbounded above"}));
    s.sample(json!({"check":"relative_to","self":"TwoSided(1.0, 4.0)","reference":"UpperOneSided(2.0)","expect":"(<-, 1.0]"}));
    rep.rule = format!("BFS to depth {} from all 63 (i32) / 42 (f64) / 35 (i64) / 25 (f32) seed intervals of the three kinds; actions: +k,-k,*k,/k (k of both signs and 0; /0 excluded), unary -, A+B, A-B, B+A, B-A for every seed B; results inside the box re-enter the search; each transition judged on member images (all integer members / grid+step members, 4 members of an unbounded side incl. a far one); relative_to over all non-negative x strictly-positive Two/Upper pairs of a dyadic grid; distinct by (operation, operand kinds, scalar sign, result kind)", tier.pick(3, 5));
    rep.assume("members of an interval are checked on a finite window (all integers in range for the integer boxes; bounds, step points and grid points for floats; four points of an unbounded side)");
    rep.assume("the arithmetic is not parametric: the box is a genuine bound (DESIGN §5)");
    rep.require(s.distinct() >= 30, "fewer than 30 distinct (operation, kinds, result) classes: vacuous");
    rep.require(s.counter("documented-panics") > 0, "no documented panic was exercised");
    std::process::exit(rep.finish(s));
}
