//! C14 — intervals are well-formed; accessors / conversions are lossless.
//! All ordered/equal/inverted bound pairs over order-complete chains through every
//! constructor and conversion path, then every accessor, for many element types.

use mc::{json, Cmd, Report, Sink, Value};
use stats_ci::error::IntervalError;
use stats_ci::Interval;
use std::collections::hash_map::DefaultHasher;
use std::fmt::Debug;
use std::hash::{Hash, Hasher};
use vcheck::ivx::*;

const P: &str = "C14";

#[derive(Clone, Copy, Debug, PartialEq, Eq, Hash, PartialOrd, Ord, serde::Serialize, serde::Deserialize)]
enum Path {
    New,
    TupleTT,
    OptSomeSome,
    RangeInclusive,
    NewUpper,
    OptSomeNone,
    RangeFrom,
    NewLower,
    OptNoneSome,
    RangeToInclusive,
    OptNoneNone,
}
const TWO_PATHS: [Path; 4] = [Path::New, Path::TupleTT, Path::OptSomeSome, Path::RangeInclusive];
const UP_PATHS: [Path; 3] = [Path::NewUpper, Path::OptSomeNone, Path::RangeFrom];
const LO_PATHS: [Path; 3] = [Path::NewLower, Path::OptNoneSome, Path::RangeToInclusive];

fn construct<T: PartialOrd + Clone>(p: Path, lo: Option<&T>, hi: Option<&T>) -> Result<Interval<T>, IntervalError> {
    let l = || lo.unwrap().clone();
    let h = || hi.unwrap().clone();
    match p {
        Path::New => Interval::new(l(), h()),
        Path::TupleTT => Interval::try_from((l(), h())),
        Path::OptSomeSome => Interval::try_from((Some(l()), Some(h()))),
        Path::RangeInclusive => Interval::try_from(l()..=h()),
        Path::NewUpper => Ok(Interval::new_upper(l())),
        Path::OptSomeNone => Interval::try_from((Some(l()), None)),
        Path::RangeFrom => Ok(Interval::from(l()..)),
        Path::NewLower => Ok(Interval::new_lower(h())),
        Path::OptNoneSome => Interval::try_from((None, Some(h()))),
        Path::RangeToInclusive => Ok(Interval::from(..=h())),
        Path::OptNoneNone => Interval::try_from((None::<T>, None::<T>)),
    }
}

/// checks valid for every T: PartialOrd + Clone + Debug
fn core_checks<T: PartialOrd + Clone + Debug>(c: &Chain<T>, iv: &Interval<T>, lo: Option<u8>, hi: Option<u8>, path: Path, s: &mut Sink) {
    let case = || json!({"type":c.name,"path":path,"lo":lo,"hi":hi});
    let lov = lo.map(|i| c.vals[i as usize].clone());
    let hiv = hi.map(|i| c.vals[i as usize].clone());
    let sig = |what: &str| format!("{what}/{}", match (lo, hi) { (Some(_), Some(_)) => "TwoSided", (Some(_), None) => "Upper", _ => "Lower" });
    s.calls += 14;
    // stored bounds through every accessor
    if iv.low() != lov || iv.high() != hiv {
        s.violation(sig("low-high"), format!("{iv:?}: low()={:?} high()={:?} expected {lov:?} {hiv:?}", iv.low(), iv.high()), case());
    }
    if iv.left() != lov.as_ref() || iv.right() != hiv.as_ref() {
        s.violation(sig("left-right"), format!("{iv:?}: left()={:?} right()={:?}", iv.left(), iv.right()), case());
    }
    if iv.low_as_ref() != lov.as_ref() || iv.high_as_ref() != hiv.as_ref() {
        s.violation(sig("as_ref-accessors"), format!("{iv:?}: low_as_ref()={:?} high_as_ref()={:?}", iv.low_as_ref(), iv.high_as_ref()), case());
    }
    // well-formedness
    if let (Some(l), Some(h)) = (iv.left(), iv.right()) {
        if !(l <= h) {
            s.violation(sig("ill-formed"), format!("{iv:?} has low > high (constructed through {path:?})"), case());
        }
    }
    // kind predicates
    let (two, one, up, low) = (iv.is_two_sided(), iv.is_one_sided(), iv.is_upper(), iv.is_lower());
    let exp = (lo.is_some() && hi.is_some(), !(lo.is_some() && hi.is_some()), lo.is_some() && hi.is_none(), lo.is_none() && hi.is_some());
    if (two, one, up, low) != exp {
        s.violation(sig("kind-predicates"), format!("{iv:?}: (two,one,upper,lower)={:?} expected {exp:?}", (two, one, up, low)), case());
    }
    if (two as u8 + up as u8 + low as u8) != 1 || one == two {
        s.violation(sig("kind-predicates-inconsistent"), format!("{iv:?}: (two,one,upper,lower)={:?}", (two, one, up, low)), case());
    }
    let deg = iv.is_degenerate();
    let exp_deg = match (lo, hi) {
        (Some(i), Some(j)) => c.pos[i as usize] == c.pos[j as usize],
        _ => false,
    };
    if deg != exp_deg {
        s.violation(sig("is_degenerate"), format!("{iv:?}.is_degenerate() = {deg}"), case());
    }
    // copies compare equal, as_ref is identity
    let cl = iv.clone();
    if &cl != iv || cl.as_ref() != iv {
        s.violation(sig("clone-eq"), format!("{iv:?}.clone() = {cl:?}"), case());
    }
    // option-pair round trip
    let pair: (Option<T>, Option<T>) = iv.clone().into();
    if pair != (lov.clone(), hiv.clone()) {
        s.violation(sig("into-option-pair"), format!("{iv:?} -> {pair:?}"), case());
    }
    match Interval::try_from(pair) {
        Ok(back) if &back == iv => {}
        other => s.violation(sig("option-pair-roundtrip"), format!("{iv:?} -> (Option,Option) -> {other:?}"), case()),
    }
    s.outcome(&(path, exp, exp_deg));
}

fn hash_of<T: Hash>(t: &T) -> u64 {
    let mut h = DefaultHasher::new();
    t.hash(&mut h);
    h.finish()
}

struct Built<T: PartialOrd> {
    iv: Interval<T>,
    lo: Option<u8>,
    hi: Option<u8>,
}

/// enumerate all construction cases; returns every successfully built interval
fn enumerate<T: PartialOrd + Clone + Debug>(c: &Chain<T>, s: &mut Sink) -> Vec<Built<T>> {
    let n = c.vals.len() as u8;
    let mut built = vec![];
    for i in 0..n {
        for j in 0..n {
            let valid = c.pos[i as usize] <= c.pos[j as usize];
            for p in TWO_PATHS {
                s.evals += 1;
                s.calls += 1;
                let r = construct(p, Some(&c.vals[i as usize]), Some(&c.vals[j as usize]));
                let case = json!({"type":c.name,"path":p,"lo":i,"hi":j});
                match (&r, valid) {
                    (Ok(iv), true) => {
                        if !matches!(iv, Interval::TwoSided(a, b) if *a == c.vals[i as usize] && *b == c.vals[j as usize]) {
                            s.violation(format!("constructor-wrong-value/{p:?}"), format!("{p:?}({:?},{:?}) = {iv:?}", c.vals[i as usize], c.vals[j as usize]), case);
                        } else {
                            core_checks(c, iv, Some(i), Some(j), p, s);
                        }
                    }
                    (Err(IntervalError::InvalidBounds), false) => {
                        s.outcome(&(p, "InvalidBounds"));
                    }
                    (Ok(iv), false) => s.violation(format!("inverted-bounds-accepted/{p:?}"), format!("{p:?}({:?},{:?}) = Ok({iv:?}) with low > high", c.vals[i as usize], c.vals[j as usize]), case),
                    (Err(e), true) => s.violation(format!("valid-bounds-rejected/{p:?}"), format!("{p:?}({:?},{:?}) = Err({e:?})", c.vals[i as usize], c.vals[j as usize]), case),
                    (Err(e), false) => s.violation(format!("wrong-error/{p:?}"), format!("{p:?}({:?},{:?}) = Err({e:?}), expected InvalidBounds", c.vals[i as usize], c.vals[j as usize]), case),
                }
                if let (Ok(iv), true, Path::New) = (r, valid, p) {
                    built.push(Built { iv, lo: Some(i), hi: Some(j) });
                }
            }
        }
        for p in UP_PATHS {
            s.evals += 1;
            s.calls += 1;
            let case = json!({"type":c.name,"path":p,"lo":i,"hi":null});
            match construct(p, Some(&c.vals[i as usize]), None) {
                Ok(iv) => {
                    if !matches!(&iv, Interval::UpperOneSided(a) if *a == c.vals[i as usize]) {
                        s.violation(format!("constructor-wrong-value/{p:?}"), format!("{p:?}({:?}) = {iv:?}", c.vals[i as usize]), case);
                    } else {
                        core_checks(c, &iv, Some(i), None, p, s);
                        if p == Path::NewUpper {
                            built.push(Built { iv, lo: Some(i), hi: None });
                        }
                    }
                }
                Err(e) => s.violation(format!("one-sided-rejected/{p:?}"), format!("{e:?}"), case),
            }
        }
        for p in LO_PATHS {
            s.evals += 1;
            s.calls += 1;
            let case = json!({"type":c.name,"path":p,"lo":null,"hi":i});
            match construct(p, None, Some(&c.vals[i as usize])) {
                Ok(iv) => {
                    if !matches!(&iv, Interval::LowerOneSided(a) if *a == c.vals[i as usize]) {
                        s.violation(format!("constructor-wrong-value/{p:?}"), format!("{p:?}({:?}) = {iv:?}", c.vals[i as usize]), case);
                    } else {
                        core_checks(c, &iv, None, Some(i), p, s);
                        if p == Path::NewLower {
                            built.push(Built { iv, lo: None, hi: Some(i) });
                        }
                    }
                }
                Err(e) => s.violation(format!("one-sided-rejected/{p:?}"), format!("{e:?}"), case),
            }
        }
    }
    s.evals += 1;
    s.calls += 1;
    match construct::<T>(Path::OptNoneNone, None, None) {
        Err(IntervalError::EmptyInterval) => s.outcome(&"EmptyInterval"),
        other => s.violation("doubly-unbounded-not-EmptyInterval", format!("try_from((None,None)) = {other:?}"), json!({"type":c.name,"path":Path::OptNoneNone})),
    }
    // equality table: == iff same kind and equal bounds
    for a in &built {
        for b in &built {
            s.evals += 1;
            s.calls += 1;
            let same_kind = a.lo.is_some() == b.lo.is_some() && a.hi.is_some() == b.hi.is_some();
            let eqb = |x: Option<u8>, y: Option<u8>| match (x, y) {
                (Some(x), Some(y)) => c.pos[x as usize] == c.pos[y as usize],
                (None, None) => true,
                _ => false,
            };
            let exp = same_kind && eqb(a.lo, b.lo) && eqb(a.hi, b.hi);
            let got = a.iv == b.iv;
            if got != exp {
                s.violation(
                    if same_kind { "equality/same-kind".to_string() } else { "equality/different-kinds-compare-equal".to_string() },
                    format!("{:?} == {:?} is {got}, expected {exp}", a.iv, b.iv),
                    json!({"type":c.name,"check":"eq","a":[a.lo,a.hi],"b":[b.lo,b.hi]}),
                );
            }
            if got != !(a.iv != b.iv) {
                s.violation("ne-inconsistent", format!("{:?} vs {:?}", a.iv, b.iv), json!({"type":c.name,"check":"eq","a":[a.lo,a.hi],"b":[b.lo,b.hi]}));
            }
        }
    }
    built
}

fn hash_checks<T: PartialOrd + Clone + Debug + Hash>(c: &Chain<T>, built: &[Built<T>], s: &mut Sink) {
    for a in built {
        for b in built {
            s.calls += 2;
            if a.iv == b.iv && hash_of(&a.iv) != hash_of(&b.iv) {
                s.violation("hash/equal-intervals-hash-differently", format!("{:?} == {:?}", a.iv, b.iv), json!({"type":c.name,"check":"hash","a":[a.lo,a.hi],"b":[b.lo,b.hi]}));
            }
        }
    }
    let distinct: std::collections::HashSet<u64> = built.iter().map(|b| hash_of(&b.iv)).collect();
    s.count(&format!("distinct-hashes[{}]", c.name), distinct.len() as u64);
}

/// "copies compare equal": every way of copying - clone, clone_from onto a destination of
/// every kind, Vec::clone_from / clone_from_slice - must yield a value equal to the source
/// and of the same kind (same Debug rendering)
fn copy_checks<T: PartialOrd + Clone + Debug>(c: &Chain<T>, built: &[Built<T>], s: &mut Sink) {
    for src in built {
        for dst in built {
            s.evals += 1;
            s.calls += 1;
            let mut d = dst.iv.clone();
            d.clone_from(&src.iv);
            s.outcome(&("clone_from", src.lo.is_some(), src.hi.is_some(), dst.lo.is_some(), dst.hi.is_some()));
            if d != src.iv || format!("{d:?}") != format!("{:?}", src.iv) {
                s.violation("clone_from-differs-from-source", format!("{:?}.clone_from({:?}) gives {d:?}", dst.iv, src.iv), json!({"type":c.name,"check":"clone_from","src":[src.lo,src.hi],"dst":[dst.lo,dst.hi]}));
            }
        }
    }
    // containers: the slice / Vec forms call clone_from element-wise
    let srcs: Vec<Interval<T>> = built.iter().map(|b| b.iv.clone()).collect();
    let mut rot = srcs.clone();
    rot.rotate_left(srcs.len() / 3 + 1);
    let mut v1 = rot.clone();
    v1.clone_from(&srcs);
    let mut v2 = rot.clone();
    v2.clone_from_slice(&srcs);
    s.calls += 2;
    for (name, v) in [("Vec::clone_from", &v1), ("clone_from_slice", &v2)] {
        if let Some(i) = (0..srcs.len()).find(|&i| v[i] != srcs[i] || format!("{:?}", v[i]) != format!("{:?}", srcs[i])) {
            s.violation(format!("{name}-differs-from-source"), format!("element {i}: {:?} copied over {:?} gives {:?}", srcs[i], rot[i], v[i]), json!({"type":c.name,"check":"clone_from","i":i}));
        }
    }
}

macro_rules! int_checks {
    ($name:ident, $t:ty, $low:ident, $high:ident) => {
        fn $name(c: &Chain<$t>, built: &[Built<$t>], s: &mut Sink) {
            for b in built {
                let case = json!({"type":c.name,"check":"numeric","lo":b.lo,"hi":b.hi});
                let lo = b.lo.map(|i| c.vals[i as usize]).unwrap_or(<$t>::MIN);
                let hi = b.hi.map(|i| c.vals[i as usize]).unwrap_or(<$t>::MAX);
                s.calls += 4;
                if (b.iv.$low(), b.iv.$high()) != (lo, hi) {
                    s.violation(format!("{}-{}", stringify!($low), stringify!($high)), format!("{:?}: ({}, {}) expected ({lo}, {hi})", b.iv, b.iv.$low(), b.iv.$high()), case.clone());
                }
                let t: ($t, $t) = b.iv.into();
                if t != (lo, hi) {
                    s.violation("into-tuple", format!("{:?} -> {t:?} expected ({lo}, {hi})", b.iv), case.clone());
                }
                let w = b.iv.width();
                let expw = match (b.lo, b.hi) {
                    (Some(i), Some(j)) => Some(c.vals[j as usize] - c.vals[i as usize]),
                    _ => None,
                };
                if w != expw {
                    s.violation("width", format!("{:?}.width() = {w:?} expected {expw:?}", b.iv), case.clone());
                }
                if b.iv.is_degenerate() != (w == Some(0 as $t)) {
                    s.violation("degenerate-vs-width", format!("{:?}: is_degenerate={} width={w:?}", b.iv, b.iv.is_degenerate()), case.clone());
                }
                let copy = b.iv; // Copy
                if copy != b.iv {
                    s.violation("copy-eq", format!("{:?}", b.iv), case);
                }
            }
        }
    };
}
int_checks!(ints_i32, i32, low_i, high_i);
int_checks!(ints_i8, i8, low_i, high_i);
int_checks!(ints_i64, i64, low_i, high_i);
int_checks!(ints_i128, i128, low_i, high_i);
int_checks!(ints_i16, i16, low_i, high_i);
int_checks!(ints_isize, isize, low_i, high_i);
int_checks!(ints_u8, u8, low_u, high_u);
int_checks!(ints_u16, u16, low_u, high_u);
int_checks!(ints_u32, u32, low_u, high_u);
int_checks!(ints_u64, u64, low_u, high_u);
int_checks!(ints_u128, u128, low_u, high_u);
int_checks!(ints_usize, usize, low_u, high_u);

macro_rules! float_checks {
    ($name:ident, $t:ty) => {
        fn $name(c: &Chain<$t>, built: &[Built<$t>], s: &mut Sink) {
            for b in built {
                let case = json!({"type":c.name,"check":"numeric","lo":b.lo,"hi":b.hi});
                let lo = b.lo.map(|i| c.vals[i as usize]).unwrap_or(<$t>::NEG_INFINITY);
                let hi = b.hi.map(|i| c.vals[i as usize]).unwrap_or(<$t>::INFINITY);
                s.calls += 4;
                let same = |x: $t, y: $t| x.to_bits() == y.to_bits();
                if !(same(b.iv.low_f(), lo) && same(b.iv.high_f(), hi)) {
                    s.violation("low_f-high_f", format!("{:?}: ({:?}, {:?}) expected ({lo:?}, {hi:?})", b.iv, b.iv.low_f(), b.iv.high_f()), case.clone());
                }
                let t: ($t, $t) = b.iv.into();
                if !(same(t.0, lo) && same(t.1, hi)) {
                    s.violation("into-tuple", format!("{:?} -> {t:?} expected ({lo:?}, {hi:?})", b.iv), case.clone());
                }
                let w = b.iv.width();
                match (b.lo, b.hi, w) {
                    (Some(i), Some(j), Some(w)) => {
                        let e = c.vals[j as usize] - c.vals[i as usize];
                        if !(w == e || (w.is_nan() && e.is_nan())) {
                            s.violation("width", format!("{:?}.width() = {w:?} expected {e:?}", b.iv), case.clone());
                        }
                        // infinite equal bounds give NaN width: not judged (inf-inf)
                        if !e.is_nan() && b.iv.is_degenerate() != (w == 0.0) {
                            s.violation("degenerate-vs-width", format!("{:?}: is_degenerate={} width={w:?}", b.iv, b.iv.is_degenerate()), case.clone());
                        }
                    }
                    (Some(_), Some(_), None) => s.violation("width", format!("{:?}.width() = None", b.iv), case.clone()),
                    (_, _, Some(w)) => s.violation("width", format!("one-sided {:?}.width() = Some({w:?})", b.iv), case.clone()),
                    _ => {}
                }
                let copy = b.iv;
                if copy != b.iv {
                    s.violation("copy-eq", format!("{:?}", b.iv), case);
                }
            }
        }
    };
}
float_checks!(floats_f64, f64);
float_checks!(floats_f32, f32);

fn conv<T: Clone + PartialOrd, U: Clone + PartialOrd>(c: &Chain<T>, name: &'static str, f: impl Fn(&T) -> U) -> Chain<U> {
    Chain::with_pos(name, c.vals.iter().map(f).collect(), c.pos.clone())
}

fn run_type(ty: &str, n: usize, s: &mut Sink) {
    macro_rules! int_ty {
        ($t:ty, $f:ident, $base:expr) => {{
            let c = conv(&$base, stringify!($t), |&x| x as $t);
            let b = enumerate(&c, s);
            hash_checks(&c, &b, s);
            copy_checks(&c, &b, s);
            $f(&c, &b, s);
        }};
    }
    match ty {
        "i32" => int_ty!(i32, ints_i32, chain_i32(n)),
        "i8" => int_ty!(i8, ints_i8, chain_i8(n)),
        "i16" => int_ty!(i16, ints_i16, chain_i32(n)),
        "i64" => int_ty!(i64, ints_i64, chain_i32(n)),
        "i128" => int_ty!(i128, ints_i128, chain_i32(n)),
        "isize" => int_ty!(isize, ints_isize, chain_i32(n)),
        "u8" => int_ty!(u8, ints_u8, chain_u8(n)),
        "u16" => int_ty!(u16, ints_u16, chain_u8(n)),
        "u32" => int_ty!(u32, ints_u32, chain_u8(n)),
        "u64" => int_ty!(u64, ints_u64, chain_u8(n)),
        "u128" => int_ty!(u128, ints_u128, chain_u8(n)),
        "usize" => int_ty!(usize, ints_usize, chain_usize(n)),
        "f64" => {
            let c = chain_f64(n);
            let b = enumerate(&c, s);
            copy_checks(&c, &b, s);
            floats_f64(&c, &b, s);
        }
        "f32" => {
            let c = chain_f32(n);
            let b = enumerate(&c, s);
            copy_checks(&c, &b, s);
            floats_f32(&c, &b, s);
        }
        "char" => {
            let c = chain_char(n);
            let b = enumerate(&c, s);
            hash_checks(&c, &b, s);
            copy_checks(&c, &b, s);
        }
        "&str" => {
            let c = chain_str(n);
            let b = enumerate(&c, s);
            hash_checks(&c, &b, s);
            copy_checks(&c, &b, s);
        }
        "String" => {
            let c = chain_string(n);
            let b = enumerate(&c, s);
            hash_checks(&c, &b, s);
            copy_checks(&c, &b, s);
        }
        _ => eprintln!("unknown type {ty}"),
    }
}

/// Ranges that have been used as iterators before being converted: a `RangeInclusive` keeps its
/// bounds (and a private "exhausted" flag) while it is consumed from either end. Whatever bounds
/// it stores at the moment of the conversion - read through `start()` / `end()` right before -
/// the conversion must treat like the same pair through any other path ("return exactly the
/// stored bounds"): Ok(TwoSided(start, end)) iff start <= end, else InvalidBounds. Every range
/// a..=b over a small box, after every number of `next()` and `next_back()` calls up to
/// exhaustion and beyond.
fn consumed_ranges(s: &mut Sink) {
    macro_rules! go {
        ($t:ty, $lo:expr, $hi:expr) => {
            for a in $lo..=$hi {
                for b in $lo..=$hi {
                    let len = if b >= a { (b - a) as usize + 1 } else { 0 };
                    for front in 0..=len + 1 {
                        for back in 0..=(len + 1 - front.min(len + 1)) {
                            let mut r: std::ops::RangeInclusive<$t> = a..=b;
                            for _ in 0..front {
                                let _ = r.next();
                            }
                            for _ in 0..back {
                                let _ = r.next_back();
                            }
                            let (st, en) = (*r.start(), *r.end());
                            s.evals += 1;
                            s.calls += 1;
                            let got = Interval::<$t>::try_from(r.clone());
                            let via_new = Interval::new(st, en);
                            let ok = match (&got, &via_new) {
                                (Ok(x), Ok(y)) => x == y && *x == Interval::TwoSided(st, en),
                                (Err(x), Err(y)) => format!("{x:?}") == format!("{y:?}"),
                                _ => false,
                            };
                            s.outcome(&("consumed-range", stringify!($t), got.is_ok(), front >= len, st <= en));
                            if !ok {
                                s.violation(format!("consumed-range/{}", if got.is_ok() { "wrong-interval" } else { "stored-bounds-rejected" }), format!("{}: ({a}..={b}) after {front} x next() and {back} x next_back() stores {st}..={en}: try_from = {got:?}, Interval::new({st}, {en}) = {via_new:?}", stringify!($t)), json!({"type":"consumed-range","elem":stringify!($t),"a":a,"b":b,"front":front,"back":back}));
                            }
                        }
                    }
                }
            }
        };
    }
    go!(i32, -2, 3);
    go!(u8, 0, 4);
    go!(i64, -1, 2);
    go!(usize, 0, 3);
}

const TYPES: [&str; 17] = ["i32", "i8", "i16", "i64", "i128", "isize", "u8", "u16", "u32", "u64", "u128", "usize", "f64", "f32", "char", "&str", "String"];

fn replay_case(case: &Value, s: &mut Sink) {
    // a type's whole enumeration is milliseconds: replay re-runs it and reports
    if case["type"] == "consumed-range" {
        consumed_ranges(s);
        return;
    }
    run_type(case["type"].as_str().unwrap_or(""), 9, s);
}

fn main() {
    let (cmd, tier) = mc::parse_args();
    if let Cmd::Replay(p) = cmd {
        std::process::exit(mc::report::replay_main(P, &p, replay_case));
    }
    let mut rep = Report::new(P, tier);
    let mut s = Sink::new();
    for ty in TYPES {
        run_type(ty, 9, &mut s);
        if tier == mc::Tier::Thorough && !ty.starts_with("i8") {
            run_type(ty, 11, &mut s);
        }
    }
    consumed_ranges(&mut s);
    s.sample(json!({"type":"i32","path":"TupleTT","lo":5,"hi":2,"expect":"Err(InvalidBounds) (inverted pair)"}));
    s.sample(json!({"type":"f64","path":"New","lo":"-0.0","hi":"+0.0","expect":"Ok, degenerate, width 0, equal to [+0.0,-0.0]"}));
    s.sample(json!({"type":"u8","path":"NewLower","hi":3,"expect":"low_u()=0, into (u8,u8) = (0, 60), width None"}));
    s.sample(json!({"type":"String","path":"OptNoneNone","expect":"Err(EmptyInterval)"}));
    rep.rule = "every ordered pair of chain values (all positions of a 9-chain incl. extremes: ordered, equal, inverted) x 4 two-sided construction paths + every value x 3+3 one-sided paths + (None,None), then every accessor/predicate/conversion on every constructed interval, the full equality/hash table and clone_from over all ordered (source, destination) pairs plus the Vec / slice forms, for 12 integer types, f64/f32 (+-0 pair, subnormal, infinities), char, &str, String; plus every inclusive range over a small integer box after every number of next() / next_back() calls up to exhaustion and beyond (the conversion must treat the bounds the range stores then like the same pair through Interval::new); distinct by (path, kind predicates, degenerate)".into();
    rep.assume("NaN bounds are outside the property's quantifier");
    rep.assume("equal intervals must hash equally; distinct hashes for distinct kinds are counted but not demanded");
    rep.require(s.distinct() >= 12, "fewer than 12 distinct construction classes: vacuous");
    std::process::exit(rep.finish(s));
}
