//! C15 — interval comparison is a strict partial order consistent with equality.
//! All ordered triples of intervals over an order-complete chain; oracle = bit sets.

use mc::{json, Cmd, Report, Sink, Value};
use std::cmp::Ordering;
use std::fmt::Debug;
use vcheck::ivx::*;

const P: &str = "C15";

fn expected<T: PartialOrd + Clone>(c: &Chain<T>, a: Iv, b: Iv) -> Option<Ordering> {
    let (sa, sb) = (c.bits(a), c.bits(b));
    if sa == sb {
        return Some(Ordering::Equal);
    }
    let hi = |s: u32| 31 - s.leading_zeros();
    let lo = |s: u32| s.trailing_zeros();
    if hi(sa) <= lo(sb) {
        Some(Ordering::Less)
    } else if hi(sb) <= lo(sa) {
        Some(Ordering::Greater)
    } else {
        None
    }
}

fn judge_pair<T: PartialOrd + Clone + Debug>(c: &Chain<T>, a: Iv, b: Iv, s: &mut Sink) -> Option<Ordering> {
    let (ia, ib) = (c.build(a), c.build(b));
    let exp = expected(c, a, b);
    let got = ia.partial_cmp(&ib);
    let rev = ib.partial_cmp(&ia);
    s.evals += 1;
    s.calls += 7;
    let case = || json!({"check":"pair","type":c.name,"n":c.top()+1,"a":a,"b":b});
    s.outcome(&(a.kind(), b.kind(), got, exp));
    if got != exp {
        s.violation(
            format!("partial_cmp/{}x{}/got={:?}/expected={:?}", a.kind(), b.kind(), got, exp),
            format!("{ia:?}.partial_cmp({ib:?}) = {got:?}, the denoted sets demand {exp:?}"),
            case(),
        );
    }
    if rev != got.map(|o| o.reverse()) {
        s.violation(
            format!("partial_cmp-antisymmetry/{}x{}", a.kind(), b.kind()),
            format!("{ia:?} vs {ib:?}: {got:?} but reversed arguments give {rev:?}"),
            case(),
        );
    }
    let eq = ia == ib;
    if eq != (got == Some(Ordering::Equal)) {
        s.violation(
            format!("equal-vs-eq/{}x{}", a.kind(), b.kind()),
            format!("{ia:?} == {ib:?} is {eq} but partial_cmp = {got:?}"),
            case(),
        );
    }
    let ops = (ia < ib, ia <= ib, ia > ib, ia >= ib);
    let want = (
        got == Some(Ordering::Less),
        matches!(got, Some(Ordering::Less | Ordering::Equal)),
        got == Some(Ordering::Greater),
        matches!(got, Some(Ordering::Greater | Ordering::Equal)),
    );
    if ops != want {
        s.violation(
            format!("operators-vs-partial_cmp/{}x{}", a.kind(), b.kind()),
            format!("{ia:?} vs {ib:?}: (<,<=,>,>=) = {ops:?} but partial_cmp = {got:?}"),
            case(),
        );
    }
    got
}

fn run_chain<T: PartialOrd + Clone + Debug + Sync>(c: &Chain<T>, s: &mut Sink) {
    let ivs = c.intervals();
    let n = ivs.len();
    // pair table from the real implementation (each pair judged once)
    let mut tab = vec![None; n * n];
    for i in 0..n {
        for j in 0..n {
            tab[i * n + j] = judge_pair(c, ivs[i], ivs[j], s);
        }
    }
    // all ordered triples: transitivity and irreflexivity on the real results
    let mut triples = 0u64;
    for i in 0..n {
        if tab[i * n + i] != Some(Ordering::Equal) {
            s.violation("irreflexive/not-equal-to-self", format!("{:?} vs itself = {:?}", c.build(ivs[i]), tab[i * n + i]), json!({"check":"pair","type":c.name,"n":c.top()+1,"a":ivs[i],"b":ivs[i]}));
        }
        for j in 0..n {
            let ab = tab[i * n + j];
            for k in 0..n {
                triples += 1;
                let bc = tab[j * n + k];
                let ac = tab[i * n + k];
                if ab == Some(Ordering::Less) && bc == Some(Ordering::Less) && ac != Some(Ordering::Less) {
                    s.violation(
                        format!("transitivity/{}<{}<{}", ivs[i].kind(), ivs[j].kind(), ivs[k].kind()),
                        format!("{:?} < {:?} < {:?} but first vs third = {:?}", c.build(ivs[i]), c.build(ivs[j]), c.build(ivs[k]), ac),
                        json!({"check":"triple","type":c.name,"n":c.top()+1,"a":ivs[i],"b":ivs[j],"c":ivs[k]}),
                    );
                }
                // a == b must be substitutable: cmp(a,c) == cmp(b,c)
                if ab == Some(Ordering::Equal) && ac != bc {
                    s.violation(
                        "equal-not-substitutable".to_string(),
                        format!("{:?} == {:?} but they compare differently with {:?}: {:?} vs {:?}", c.build(ivs[i]), c.build(ivs[j]), c.build(ivs[k]), ac, bc),
                        json!({"check":"triple","type":c.name,"n":c.top()+1,"a":ivs[i],"b":ivs[j],"c":ivs[k]}),
                    );
                }
            }
        }
    }
    s.evals += triples;
    s.count(&format!("triples[{}]", c.name), triples);
}

fn replay_case(case: &Value, s: &mut Sink) {
    let n = case["n"].as_u64().unwrap_or(9) as usize;
    macro_rules! go {
        ($c:expr) => {{
            let c = $c;
            let a: Iv = serde_json::from_value(case["a"].clone()).unwrap();
            let b: Iv = serde_json::from_value(case["b"].clone()).unwrap();
            if case["check"] == "pair" {
                judge_pair(&c, a, b, s);
            } else {
                let cc: Iv = serde_json::from_value(case["c"].clone()).unwrap();
                let ab = judge_pair(&c, a, b, s);
                let bc = judge_pair(&c, b, cc, s);
                let ac = judge_pair(&c, a, cc, s);
                if ab == Some(Ordering::Less) && bc == Some(Ordering::Less) && ac != Some(Ordering::Less) {
                    s.violation("transitivity", format!("{ab:?} {bc:?} {ac:?}"), case.clone());
                }
                if ab == Some(Ordering::Equal) && ac != bc {
                    s.violation("equal-not-substitutable", format!("{ab:?} {bc:?} {ac:?}"), case.clone());
                }
            }
        }};
    }
    match case["type"].as_str().unwrap_or("") {
        "i32" => go!(chain_i32(n)),
        "f64" => go!(chain_f64(n)),
        "&str" => go!(chain_str(n)),
        "u8" => go!(chain_u8(n)),
        _ => eprintln!("unknown replay type"),
    }
}

fn main() {
    let (cmd, tier) = mc::parse_args();
    if let Cmd::Replay(p) = cmd {
        std::process::exit(mc::report::replay_main(P, &p, replay_case));
    }
    let mut rep = Report::new(P, tier);
    let mut s = Sink::new();
    let n = tier.pick(10, 11);
    run_chain(&chain_i32(n), &mut s);
    run_chain(&chain_f64(n), &mut s);
    run_chain(&chain_str(n), &mut s);
    run_chain(&chain_u8(n), &mut s);
    s.sample(json!({"type":"i32","a":{"Two":[1,3]},"b":{"Two":[3,5]},"expect":"Less (touching at one endpoint)"}));
    s.sample(json!({"type":"f64","a":{"Lower":3},"b":{"Upper":4},"expect":"Less: (<-,-0.0] vs [+0.0,->) share the point 0"}));
    s.sample(json!({"type":"&str","triple":[{"Lower":2},{"Two":[2,4]},{"Upper":4}],"expect":"a<b<c and a<c"}));
    rep.rule = format!("all intervals over a {n}-chain (bounds in inner positions) for i32, f64 (+-0 pair, subnormal, huge), &str, u8: every ordered pair (partial_cmp both ways, ==, <,<=,>,>=) and every ordered triple (transitivity, substitutability of equals); distinct by (kinds, observed, expected)");
    rep.assume("parametricity (DESIGN §5): a 7-inner-position chain realises every order type of the <=6 bounds of a triple");
    rep.require(s.distinct() >= 15, "fewer than 15 distinct comparison classes: vacuous");
    std::process::exit(rep.finish(s));
}
