//! C16 — mean/comparison CIs are equivariant under scaling, negation, shift, reordering.
//! Metamorphic relations between two real runs (no expected values): power-of-two
//! scaling and negation bit-exactly, shift and permutation within the conditioning-based
//! rounding tolerance.

use mc::exact::{exact_stats, ExactStats};
use mc::explore::{multisets, nth_sequence, permutations};
use mc::{json, par_judge, Cmd, Kind, Report, Sink, Tier, Value};
use stats_ci::comparison::{Paired, Unpaired};
use stats_ci::mean::{Arithmetic, Geometric, Harmonic};
use stats_ci::{CIResult, Interval};
use vcheck::{conf, shape, Fl};

const P: &str = "C16";
const ALPHA: [f64; 8] = [-3.0, -0.5, 0.25, 1.0, 2.75, 100.0, 0.1, 1.1];
const PAIR_ALPHA: [f64; 5] = [-3.0, 0.25, 1.0, 100.0, 0.1];
const EXPS: [i32; 9] = [-300, -40, -3, -1, 1, 2, 10, 40, 300];
const SHIFTS: [f64; 4] = [1.0, -7.5, 1000.0, 1048576.0];

#[derive(Clone, Copy, Debug, PartialEq, Eq, Hash, serde::Serialize, serde::Deserialize)]
enum Prod {
    Arithmetic,
    Geometric,
    Harmonic,
    Paired,
    Unpaired,
}

fn call<F: Fl>(p: Prod, c: stats_ci::Confidence, a: &Vec<F>, b: &Vec<F>) -> CIResult<Interval<F>> {
    match p {
        Prod::Arithmetic => Arithmetic::<F>::ci(c, a),
        Prod::Geometric => Geometric::<F>::ci(c, a),
        Prod::Harmonic => Harmonic::<F>::ci(c, a),
        Prod::Paired => Paired::<F>::ci(c, a, b),
        Prod::Unpaired => Unpaired::<F>::ci(c, a, b),
    }
}

fn min_normal<F: Fl>() -> f64 {
    F::min_positive_value().f()
}
fn max_f<F: Fl>() -> f64 {
    F::max_value().f()
}

/// every value, its square and the error terms of its square stay in the normal range
fn in_range<F: Fl>(vals: &[f64], fourth_powers: bool) -> bool {
    vals.iter().all(|&x| {
        let x = x.abs();
        let sq = x == 0.0 || (x * x * F::U * F::U >= min_normal::<F>() * 4.0 && x * x <= max_f::<F>() / 1024.0 && x * F::U >= min_normal::<F>() * 4.0);
        // the unpaired effective dof squares the variances in the data's float type
        let x4 = x * x * x * x;
        sq && (!fourth_powers || x == 0.0 || (x4 <= max_f::<F>() / 1e6 && x4 * F::U * F::U >= min_normal::<F>() * 4.0))
    })
}

fn sh<F: Fl>(r: &CIResult<Interval<F>>) -> Option<(Kind, f64, f64)> {
    r.as_ref().ok().map(shape)
}

fn bounds_normal<F: Fl>(s: (Kind, f64, f64)) -> bool {
    [s.1, s.2].iter().all(|b| b.is_infinite() || *b == 0.0 || b.abs() >= min_normal::<F>() * 4.0)
}

/// tolerance (absolute) for comparing a bound of two runs that are equal in exact
/// arithmetic: mean error + relative half-width error from the conditioning of each run
fn tol_pair<F: Fl>(e1: &ExactStats, e2: &ExactStats, h: f64, b: f64) -> Option<f64> {
    tol_pair_f::<F>(e1, e2, h, b, 1.0)
}
fn tol_pair_f<F: Fl>(e1: &ExactStats, e2: &ExactStats, h: f64, b: f64, factor: f64) -> Option<f64> {
    let eps = factor * 16.0 * F::U * (e1.cond_sumsq() + e2.cond_sumsq());
    if !(eps <= 1e-2) {
        return None; // outside the conditioning domain
    }
    let ct = 8.0 * F::U * (e1.sum_abs_f() / e1.n as f64 + e2.sum_abs_f() / e2.n as f64);
    Some(ct + h.abs() * eps + 4.0 * F::U * b.abs() + f64::MIN_POSITIVE)
}

fn stats_of<F: Fl>(p: Prod, a: &Vec<F>, b: &Vec<F>) -> Vec<ExactStats> {
    let f = |v: &Vec<F>| exact_stats(&v.iter().map(|x| x.f()).collect::<Vec<_>>());
    match p {
        Prod::Paired => vec![exact_stats(&a.iter().zip(b).map(|(x, y)| (*x - *y).f()).collect::<Vec<_>>())],
        Prod::Unpaired => vec![f(a), f(b)],
        Prod::Geometric => vec![exact_stats(&a.iter().map(|x| x.ln().f()).collect::<Vec<_>>())],
        Prod::Harmonic => vec![exact_stats(&a.iter().map(|x| (F::one() / *x).f()).collect::<Vec<_>>())],
        Prod::Arithmetic => vec![f(a)],
    }
}

fn worst(es: &[ExactStats]) -> ExactStats {
    // the worse-conditioned component stands for the run
    es.iter().cloned().max_by(|x, y| x.cond_sumsq().partial_cmp(&y.cond_sumsq()).unwrap_or(std::cmp::Ordering::Equal)).unwrap()
}

#[allow(clippy::too_many_arguments)]
fn judge_relations<F: Fl>(p: Prod, av: &[f64], bv: &[f64], confs: &[(Kind, f64)], with_shift: bool, s: &mut Sink) {
    let a: Vec<F> = av.iter().map(|&x| F::of(x)).collect();
    let b: Vec<F> = bv.iter().map(|&x| F::of(x)).collect();
    let all: Vec<f64> = a.iter().chain(b.iter()).map(|x| x.f()).collect();
    let positive_only = matches!(p, Prod::Geometric | Prod::Harmonic);
    let e_base = stats_of::<F>(p, &a, &b);
    for &(kind, level) in confs {
        let c = conf(kind, level);
        let base = call::<F>(p, c, &a, &b);
        s.calls += 1;
        let Some(bs) = sh(&base) else {
            s.skipped += 1;
            continue;
        };
        let case = |rel: &str, param: f64| json!({"producer":p,"type":F::NAME,"a":av,"b":bv,"kind":kind,"level":level,"relation":rel,"param":param});
        let d = |rel: &str| format!("{p:?}<{}> {c:?} a={av:?} b={bv:?}: {rel}", F::NAME);
        // ---- scaling by 2^e ----------------------------------------------------------
        for e in EXPS {
            if F::NAME == "f32" && e.abs() > 40 {
                continue;
            }
            let k = 2f64.powi(e);
            let scaled: Vec<f64> = all.iter().map(|x| x * k).collect();
            let p4 = p == Prod::Unpaired;
            if !in_range::<F>(&all, p4) || !in_range::<F>(&scaled, p4) {
                s.skipped += 1;
                continue;
            }
            s.evals += 1;
            s.calls += 1;
            let (a2, b2): (Vec<F>, Vec<F>) = (a.iter().map(|x| F::of(x.f() * k)).collect(), b.iter().map(|x| F::of(x.f() * k)).collect());
            let r = call::<F>(p, c, &a2, &b2);
            let Some(rs) = sh(&r) else {
                s.violation(format!("{p:?}/scaling-changes-outcome"), d(&format!("scaled by 2^{e} = {r:?}, base {base:?}")), case("scale", e as f64));
                continue;
            };
            if !bounds_normal::<F>(rs) || !bounds_normal::<F>(bs) || !bounds_normal::<F>((bs.0, bs.1 * k, bs.2 * k)) {
                s.skipped += 1;
                continue;
            }
            s.outcome(&(p, F::NAME, "scale", kind));
            let ok = match p {
                // log-space shift: up to rounding commensurate with the conditioning in log space
                Prod::Geometric => {
                    let e2 = stats_of::<F>(p, &a2, &b2);
                    let chk = |x: f64, y: f64| {
                        if x == y * k || (x.is_infinite() && y.is_infinite()) || (x == 0.0 && y == 0.0) {
                            return Some(true);
                        }
                        if x.is_infinite() || y.is_infinite() || x == 0.0 || y == 0.0 {
                            return None; // exp over/underflowed in one of the runs: out of domain
                        }
                        let (lx, ly) = (x.ln(), y.ln() + e as f64 * std::f64::consts::LN_2);
                        let h = (bs.2.ln() - bs.1.ln()).abs().min(1e300);
                        let h = if h.is_finite() { h } else { (ly - e_base[0].mean_f() - e as f64 * std::f64::consts::LN_2).abs() * 2.0 };
                        tol_pair::<F>(&e_base[0], &e2[0], h, lx).map(|t| (lx - ly).abs() <= t + 16.0 * F::U * (1.0 + lx.abs()))
                    };
                    match (chk(rs.1, bs.1), chk(rs.2, bs.2)) {
                        (Some(x), Some(y)) => rs.0 == bs.0 && x && y,
                        _ => {
                            s.skipped += 1;
                            true
                        }
                    }
                }
                // everything else commutes exactly with a power-of-two scaling
                _ => rs.0 == bs.0 && rs.1 == bs.1 * k && rs.2 == bs.2 * k,
            };
            if !ok {
                s.violation(
                    format!("{p:?}/not-scale-equivariant/{}", kind.name()),
                    d(&format!("data x 2^{e} gives [{:?}, {:?}] but 2^{e} x base interval is [{:?}, {:?}]", rs.1, rs.2, bs.1 * k, bs.2 * k)),
                    case("scale", e as f64),
                );
            }
        }
        // ---- scaling up to the edge of the type: the largest power of two for which the sum
        // of squares (of the observations; of the differences for Paired) stays below MAX/2,
        // against the same sample 8 binades lower. Everything the documented formula needs is
        // representable there; an Err is accepted (an implementation may report an overflowing
        // intermediate), a silently different interval is not.
        if matches!(p, Prod::Arithmetic | Prod::Paired) {
            let vals: Vec<f64> = if p == Prod::Paired { a.iter().zip(&b).map(|(x, y)| (*x - *y).f()).collect() } else { all.clone() };
            let ssq: f64 = vals.iter().map(|x| x * x).sum();
            let amax = all.iter().fold(0.0f64, |m, x| m.max(x.abs()));
            let e0 = if ssq > 0.0 && ssq.is_finite() { ((max_f::<F>() / 2.0 / ssq).log2() / 2.0).floor() } else { f64::NAN };
            if e0.is_finite() && e0.abs() < 1100.0 && amax > 0.0 {
                let mut e = e0 as i32;
                for _ in 0..16 {
                    if amax * 2f64.powi(e) > max_f::<F>() / 4.0 {
                        e -= 1;
                    }
                }
                let (k1, k0) = (2f64.powi(e), 2f64.powi(e - 8));
                let mk = |k: f64| -> (Vec<F>, Vec<F>) { (a.iter().map(|x| F::of(x.f() * k)).collect(), b.iter().map(|x| F::of(x.f() * k)).collect()) };
                let ((a1, b1), (a0, b0)) = (mk(k1), mk(k0));
                s.calls += 2;
                match (sh(&call::<F>(p, c, &a1, &b1)), sh(&call::<F>(p, c, &a0, &b0))) {
                    (Some(r1), Some(r0)) => {
                        s.evals += 1;
                        s.outcome(&(p, F::NAME, "edge", kind));
                        let fin = [r1.1, r1.2, r0.1 * 256.0, r0.2 * 256.0].iter().all(|x| !x.is_nan() && (x.is_infinite() || x.abs() <= max_f::<F>()));
                        if fin && !(r1.0 == r0.0 && r1.1 == r0.1 * 256.0 && r1.2 == r0.2 * 256.0) {
                            s.violation(
                                format!("{p:?}/not-scale-equivariant-at-the-edge/{}", kind.name()),
                                d(&format!("data x 2^{e} gives [{:?}, {:?}] but 2^8 x the interval of data x 2^{} is [{:?}, {:?}]", r1.1, r1.2, e - 8, r0.1 * 256.0, r0.2 * 256.0)),
                                case("edge", e as f64),
                            );
                        }
                    }
                    _ => s.skipped += 1,
                }
            }
        }
        if positive_only {
            continue;
        }
        // ---- negation: exactly mirrored, upper <-> lower -----------------------------
        {
            s.evals += 1;
            s.calls += 1;
            let (a2, b2): (Vec<F>, Vec<F>) = (a.iter().map(|x| -*x).collect(), b.iter().map(|x| -*x).collect());
            let r = call::<F>(p, conf(kind.flipped(), level), &a2, &b2);
            s.outcome(&(p, F::NAME, "negate", kind));
            match sh(&r) {
                Some(rs) => {
                    let same = |x: f64, y: f64| x.to_bits() == y.to_bits() || (x == 0.0 && y == 0.0);
                    if !(rs.0 == bs.0.flipped() && same(rs.1, -bs.2) && same(rs.2, -bs.1)) {
                        s.violation(format!("{p:?}/negation-not-mirrored/{}", kind.name()), d(&format!("base {bs:?}; negated data with the flipped kind {rs:?}")), case("negate", 0.0));
                    }
                }
                None => s.violation(format!("{p:?}/negation-changes-outcome"), d(&format!("negated = {r:?}")), case("negate", 0.0)),
            }
        }
        // ---- shift ------------------------------------------------------------------
        if with_shift {
            for sft in SHIFTS {
                let (a2, b2): (Vec<F>, Vec<F>) = match p {
                    // shifting both samples of a comparison leaves the difference unchanged;
                    // shifting only the first shifts the interval
                    Prod::Paired | Prod::Unpaired => (a.iter().map(|x| F::of(x.f() + sft)).collect(), b.clone()),
                    _ => (a.iter().map(|x| F::of(x.f() + sft)).collect(), b.clone()),
                };
                // the shifted data must be exactly the shifted values (no rounding in the shift itself)
                if a2.iter().zip(&a).any(|(y, x)| mc::exact::q(y.f()) != mc::exact::q(x.f()) + mc::exact::q(sft)) {
                    s.skipped += 1;
                    continue;
                }
                s.evals += 1;
                s.calls += 1;
                let r = call::<F>(p, c, &a2, &b2);
                let e2 = stats_of::<F>(p, &a2, &b2);
                let Some(rs) = sh(&r) else {
                    s.violation(format!("{p:?}/shift-changes-outcome"), d(&format!("shifted by {sft} = {r:?}")), case("shift", sft));
                    continue;
                };
                s.outcome(&(p, F::NAME, "shift", kind));
                let (w1, w2) = (worst(&e_base), worst(&e2));
                let mut ok = rs.0 == bs.0;
                let mut judged = true;
                for (x, y) in [(rs.1, bs.1), (rs.2, bs.2)] {
                    if y.is_infinite() || x.is_infinite() {
                        ok &= x == y;
                        continue;
                    }
                    let h = if bs.1.is_finite() && bs.2.is_finite() { 0.5 * (bs.2 - bs.1) } else { (y - w1.mean_f()).abs() + (e_base.get(1).map(|e| e.mean_f().abs()).unwrap_or(0.0)) * 0.0 };
                    let h = if matches!(p, Prod::Unpaired) && !(bs.1.is_finite() && bs.2.is_finite()) { (y - (e_base[0].mean_f() - e_base[1].mean_f())).abs() } else { h };
                    // (unpaired: the effective dof is recomputed from the rounded variances, and at small dof the quantile is sensitive to it: x8)
                    match tol_pair_f::<F>(&w1, &w2, h, x, if matches!(p, Prod::Unpaired) { 8.0 } else { 1.0 }) {
                        Some(t) => {
                            let extra = if matches!(p, Prod::Unpaired) { 8.0 * F::U * (e2[0].sum_abs_f() / e2[0].n as f64 + e2[1].sum_abs_f() / e2[1].n as f64 + e_base[0].sum_abs_f() / e_base[0].n as f64) } else { 0.0 };
                            let dev = ((x - sft) - y).abs();
                            s.max("shift_dev_over_tol", dev / (t + extra), || d(&format!("shift {sft}")));
                            ok &= dev <= t + extra;
                        }
                        None => judged = false,
                    }
                }
                if !judged {
                    s.skipped += 1;
                } else if !ok {
                    s.violation(format!("{p:?}/not-shift-equivariant/{}", kind.name()), d(&format!("data + {sft} gives [{:?}, {:?}], base [{:?}, {:?}]", rs.1, rs.2, bs.1, bs.2)), case("shift", sft));
                }
            }
        }
    }
}

/// all permutations of one multiset: every order must give (nearly) the same bounds
fn judge_perms<F: Fl>(p: Prod, vals: &[f64], confs: &[(Kind, f64)], s: &mut Sink) {
    let base: Vec<F> = vals.iter().map(|&x| F::of(x)).collect();
    let e = stats_of::<F>(p, &base, &vec![]);
    let perms = permutations(vals.len());
    for &(kind, level) in confs {
        let c = conf(kind, level);
        let r0 = call::<F>(p, c, &base, &vec![]);
        s.calls += 1;
        let Some(b0) = sh(&r0) else {
            s.skipped += 1;
            continue;
        };
        for pm in perms.iter().skip(1) {
            s.evals += 1;
            s.calls += 1;
            let data: Vec<F> = pm.iter().map(|&i| base[i]).collect();
            let r = call::<F>(p, c, &data, &vec![]);
            let case = || json!({"producer":p,"type":F::NAME,"a":vals,"b":[],"perm":pm,"kind":kind,"level":level,"relation":"permute"});
            let Some(bs) = sh(&r) else {
                s.violation(format!("{p:?}/reordering-changes-outcome"), format!("{vals:?} in order {pm:?}: {r:?} vs {r0:?}"), case());
                continue;
            };
            s.outcome(&(p, F::NAME, "permute", kind, bs.1 == b0.1 && bs.2 == b0.2));
            let mut ok = bs.0 == b0.0;
            let mut judged = true;
            // geometric / harmonic bounds are compared in the space where the statistics are
            // accumulated (ln x, 1/x); harmonic bounds from a non-positive reciprocal-space
            // bound are outside the claim
            let tr = |v: f64| match p {
                Prod::Geometric => v.ln(),
                Prod::Harmonic => 1.0 / v,
                _ => v,
            };
            if p == Prod::Harmonic && [bs.1, bs.2, b0.1, b0.2].iter().any(|v| v.is_finite() && *v <= 0.0) {
                s.skipped += 1;
                continue;
            }
            let (t0, t1) = ((tr(b0.1), tr(b0.2)), (tr(bs.1), tr(bs.2)));
            for ((x, y), (ox, oy)) in [(t1.0, t0.0), (t1.1, t0.1)].into_iter().zip([(bs.1, b0.1), (bs.2, b0.2)]) {
                // missing sides, overflowed / underflowed bounds and identical bounds are
                // compared as they are
                let degenerate = ox.is_infinite() || oy.is_infinite() || (p == Prod::Geometric && (ox == 0.0 || oy == 0.0));
                if degenerate || ox == oy {
                    // (geometric: exp over/underflowed in one of the two runs: out of domain as
                    // long as both are non-negative)
                    ok &= ox == oy || (p == Prod::Geometric && ox >= 0.0 && oy >= 0.0);
                    continue;
                }
                let h = if t0.0.is_finite() && t0.1.is_finite() { 0.5 * (t0.1 - t0.0).abs() } else { (y - e[0].mean_f()).abs() };
                match tol_pair::<F>(&e[0], &e[0], h, x) {
                    Some(t) => {
                        let u = (x - y).abs() / (F::U * x.abs().max(y.abs()).max(f64::MIN_POSITIVE));
                        s.max(&format!("permutation_spread_ulps[{}]", F::NAME), u, || format!("{p:?} {vals:?} {c:?}"));
                        // (bounds obtained through ln / exp or 1/x carry the rounding of that map)
                        let extra = if p == Prod::Arithmetic { 0.0 } else { 16.0 * F::U * (1.0 + x.abs()) };
                        ok &= (x - y).abs() <= t + extra;
                    }
                    None => judged = false,
                }
            }
            if !judged {
                s.skipped += 1;
            } else if !ok {
                s.violation(format!("{p:?}/order-dependent/{}", kind.name()), format!("{p:?}<{}> {c:?}: {vals:?} gives {b0:?}, order {pm:?} gives {bs:?}", F::NAME), case());
            }
        }
    }
}

/// long vectors (beyond the switch to the normal quantile, and long enough for an
/// uncompensated sum to show in f32): value i of pattern `id` with n observations
fn long_value(id: u8, i: usize) -> f64 {
    match id {
        0 => [1.0, 2.0, 3.0, 0.1, 100.0][i % 5] + (i % 7) as f64 * 0.25,
        _ => [-3.0, 0.5, 7.25, 0.1][i % 4] - (i % 3) as f64 * 1.5,
    }
}
const LONG_N: [usize; 2] = [100_003, 250_000];

fn judge_long<F: Fl>(id: u8, n: usize, confs: &[(Kind, f64)], s: &mut Sink) {
    let a: Vec<F> = (0..n).map(|i| F::of(long_value(id, i))).collect();
    // second sample of the comparisons: the other pattern, a little shorter for Unpaired
    let b: Vec<F> = (0..n).map(|i| F::of(long_value(1 - id, i))).collect();
    let bu: Vec<F> = b[..n - 17].to_vec();
    let neg = |v: &Vec<F>| -> Vec<F> { v.iter().map(|x| -*x).collect() };
    let scl = |v: &Vec<F>, k: f64| -> Vec<F> { v.iter().map(|x| F::of(x.f() * k)).collect() };
    // structured orders of the first sample
    let mut asc = a.clone();
    asc.sort_by(|x, y| x.partial_cmp(y).unwrap());
    let mut desc = asc.clone();
    desc.reverse();
    let mut rev = a.clone();
    rev.reverse();
    let stride: Vec<F> = (0..n).map(|i| a[(i * 7919) % n]).collect(); // 7919 is prime and does not divide n
    let byabs = {
        let mut v = a.clone();
        v.sort_by(|x, y| y.abs().partial_cmp(&x.abs()).unwrap());
        v
    };
    let orders: [(&str, &Vec<F>); 5] = [("reversed", &rev), ("ascending", &asc), ("descending", &desc), ("stride-7919", &stride), ("by-decreasing-magnitude", &byabs)];
    let e = stats_of::<F>(Prod::Arithmetic, &a, &vec![]);
    for &(kind, level) in confs {
        let c = conf(kind, level);
        let case = |p: Prod, rel: &str| json!({"long":id,"n":n,"producer":p,"type":F::NAME,"kind":kind,"level":level,"relation":rel});
        for (p, x, y) in [(Prod::Arithmetic, &a, &vec![]), (Prod::Paired, &a, &b), (Prod::Unpaired, &a, &bu)] {
            let base = call::<F>(p, c, x, y);
            s.calls += 1;
            let Some(bs) = sh(&base) else {
                s.violation(format!("{p:?}/long-sample-rejected"), format!("{p:?}<{}> {c:?} on pattern {id} with {n} observations: {base:?}", F::NAME), case(p, "base"));
                continue;
            };
            // negation: exactly mirrored, kinds exchanged
            s.evals += 1;
            s.calls += 1;
            s.outcome(&(p, F::NAME, "long-negate", kind));
            let r = call::<F>(p, conf(kind.flipped(), level), &neg(x), &neg(y));
            let same = |u: f64, v: f64| u.to_bits() == v.to_bits() || (u == 0.0 && v == 0.0);
            match sh(&r) {
                Some(rs) if rs.0 == bs.0.flipped() && same(rs.1, -bs.2) && same(rs.2, -bs.1) => {}
                _ => s.violation(format!("{p:?}/negation-not-mirrored/{}", kind.name()), format!("{p:?}<{}> {c:?}, pattern {id}, n={n}: base {base:?}; negated data with the flipped kind {r:?}", F::NAME), case(p, "negate")),
            }
            // power-of-two scaling: exact
            for ex in [-20, 1, 20] {
                let k = 2f64.powi(ex);
                s.evals += 1;
                s.calls += 1;
                s.outcome(&(p, F::NAME, "long-scale", kind));
                let r = call::<F>(p, c, &scl(x, k), &scl(y, k));
                match sh(&r) {
                    Some(rs) if rs.0 == bs.0 && rs.1 == bs.1 * k && rs.2 == bs.2 * k => {}
                    _ => s.violation(format!("{p:?}/not-scale-equivariant/{}", kind.name()), format!("{p:?}<{}> {c:?}, pattern {id}, n={n}: data x 2^{ex} gives {r:?}, base {base:?}", F::NAME), case(p, "scale")),
                }
            }
        }
        // reordering (arithmetic mean): within the rounding tolerance of a compensated sum
        let r0 = call::<F>(Prod::Arithmetic, c, &a, &vec![]);
        let Some(b0) = sh(&r0) else { continue };
        for (name, data) in orders.iter() {
            s.evals += 1;
            s.calls += 1;
            s.outcome(&(Prod::Arithmetic, F::NAME, "long-permute", kind));
            let r = call::<F>(Prod::Arithmetic, c, data, &vec![]);
            let ok = match sh(&r) {
                Some(bs) if bs.0 == b0.0 => [(bs.1, b0.1), (bs.2, b0.2)].iter().all(|&(x, y)| {
                    if x.is_infinite() || y.is_infinite() {
                        return x == y;
                    }
                    let h = if b0.1.is_finite() && b0.2.is_finite() { 0.5 * (b0.2 - b0.1) } else { (y - e[0].mean_f()).abs() };
                    match tol_pair::<F>(&e[0], &e[0], h, x) {
                        Some(t) => {
                            s.max(&format!("long_permutation_dev_over_tol[{}]", F::NAME), (x - y).abs() / t, || format!("pattern {id} n={n} {name} {c:?}"));
                            (x - y).abs() <= t
                        }
                        None => true,
                    }
                }),
                _ => false,
            };
            if !ok {
                s.violation(format!("Arithmetic/order-dependent/{}", kind.name()), format!("Arithmetic<{}> {c:?}, pattern {id}, n={n}: original order {r0:?}, {name} order {r:?}", F::NAME), case(Prod::Arithmetic, "permute"));
            }
        }
    }
}

enum Job {
    Rel(Prod, Vec<f64>, Vec<f64>, bool),
    Perm(Prod, Vec<f64>, bool),
    Long(u8, usize, bool),
}

fn run(tier: Tier) -> Sink {
    let confs = vcheck::confs(Tier::Quick); // LQ x K in both tiers
    let mut jobs = vec![];
    for f32_ in [false, true] {
        for len in 2..=tier.pick(3, 5) {
            for idx in 0..(ALPHA.len() as u64).pow(len as u32) {
                let xs: Vec<f64> = nth_sequence(ALPHA.len(), len, idx).into_iter().map(|i| ALPHA[i]).collect();
                jobs.push(Job::Rel(Prod::Arithmetic, xs.clone(), vec![], f32_));
                if xs.iter().all(|x| *x > 0.0) {
                    jobs.push(Job::Rel(Prod::Geometric, xs.clone(), vec![], f32_));
                    jobs.push(Job::Rel(Prod::Harmonic, xs, vec![], f32_));
                }
            }
        }
        for len in 2..=tier.pick(2, 3) {
            let n = (PAIR_ALPHA.len() as u64).pow(len as u32);
            for i in 0..n {
                for j in 0..n {
                    let a: Vec<f64> = nth_sequence(5, len, i).into_iter().map(|k| PAIR_ALPHA[k]).collect();
                    let b: Vec<f64> = nth_sequence(5, len, j).into_iter().map(|k| PAIR_ALPHA[k]).collect();
                    jobs.push(Job::Rel(Prod::Paired, a.clone(), b.clone(), f32_));
                    jobs.push(Job::Rel(Prod::Unpaired, a, b, f32_));
                }
            }
        }
        if tier == Tier::Quick {
            // a thinned (3,3) block: pairs anchored at the extreme values
            let n = 125u64;
            for i in (0..n).step_by(7) {
                for j in (0..n).step_by(11) {
                    let a: Vec<f64> = nth_sequence(5, 3, i).into_iter().map(|k| PAIR_ALPHA[k]).collect();
                    let b: Vec<f64> = nth_sequence(5, 3, j).into_iter().map(|k| PAIR_ALPHA[k]).collect();
                    jobs.push(Job::Rel(Prod::Paired, a.clone(), b.clone(), f32_));
                    jobs.push(Job::Rel(Prod::Unpaired, a, b, f32_));
                }
            }
        }
        // permutations: every multiset of size n over the alphabet, all n! orders
        for n in 3..=tier.pick(5, 6) {
            for ms in multisets(ALPHA.len(), n) {
                if tier == Tier::Quick && n == 5 && ms[0] != 0 && ms[4] != 5 {
                    continue; // quick: size-5 multisets containing an extreme value
                }
                let vals: Vec<f64> = ms.iter().map(|&i| ALPHA[i]).collect();
                jobs.push(Job::Perm(Prod::Arithmetic, vals.clone(), f32_));
                if n <= 4 && vals.iter().all(|x| *x > 0.0) {
                    jobs.push(Job::Perm(Prod::Geometric, vals.clone(), f32_));
                    jobs.push(Job::Perm(Prod::Harmonic, vals, f32_));
                }
            }
        }
        // structured orders of a 64-element streaming prefix
        let pre: Vec<f64> = (0..64).map(|i| [1.0, 2.0, 3.0, 0.1, 100.0][i % 5] + (i / 5) as f64 * 0.25).collect();
        jobs.push(Job::Rel(Prod::Arithmetic, pre, vec![], f32_));
    }
    for id in 0..2u8 {
        for n in LONG_N {
            jobs.push(Job::Long(id, n, false));
            jobs.push(Job::Long(id, n, true));
        }
    }
    par_judge(&jobs, |j, s| match j {
        Job::Long(id, n, false) => judge_long::<f64>(*id, *n, &confs, s),
        Job::Long(id, n, true) => judge_long::<f32>(*id, *n, &confs, s),
        Job::Rel(p, a, b, false) => judge_relations::<f64>(*p, a, b, &confs, true, s),
        Job::Rel(p, a, b, true) => judge_relations::<f32>(*p, a, b, &confs, true, s),
        Job::Perm(p, v, false) => judge_perms::<f64>(*p, v, &confs, s),
        Job::Perm(p, v, true) => judge_perms::<f32>(*p, v, &confs, s),
    })
}

fn replay_case(case: &Value, s: &mut Sink) {
    if let Some(id) = case["long"].as_u64() {
        let kind: Kind = serde_json::from_value(case["kind"].clone()).unwrap();
        let confs = [(kind, case["level"].as_f64().unwrap())];
        let n = case["n"].as_u64().unwrap() as usize;
        if case["type"] == "f32" {
            judge_long::<f32>(id as u8, n, &confs, s)
        } else {
            judge_long::<f64>(id as u8, n, &confs, s)
        }
        return;
    }
    let p: Prod = serde_json::from_value(case["producer"].clone()).unwrap();
    let a: Vec<f64> = serde_json::from_value(case["a"].clone()).unwrap();
    let b: Vec<f64> = serde_json::from_value(case["b"].clone()).unwrap_or_default();
    let kind: Kind = serde_json::from_value(case["kind"].clone()).unwrap();
    let confs = [(kind, case["level"].as_f64().unwrap())];
    let f32_ = case["type"] == "f32";
    if case["relation"] == "permute" {
        if f32_ {
            judge_perms::<f32>(p, &a, &confs, s)
        } else {
            judge_perms::<f64>(p, &a, &confs, s)
        }
    } else if f32_ {
        judge_relations::<f32>(p, &a, &b, &confs, true, s)
    } else {
        judge_relations::<f64>(p, &a, &b, &confs, true, s)
    }
}

fn main() {
    let (cmd, tier) = mc::parse_args();
    mc::quiet_panics();
    if let Cmd::Replay(p) = cmd {
        std::process::exit(mc::report::replay_main(P, &p, replay_case));
    }
    let mut rep = Report::new(P, tier);
    let mut s = run(tier);
    s.sample(json!({"producer":"Arithmetic","type":"f64","a":[0.1,100.0,-3.0],"relations":["x 2^e for e in {-300,-40,-3,-1,1,2,10,40,300}: bounds scaled bit-exactly","negated data with flipped kind: mirrored bit-exactly","+ shift in {1,-7.5,1000,2^20}: shifted within conditioning tolerance","all 6 orders: bounds agree within tolerance"]}));
    s.sample(json!({"producer":"Unpaired","type":"f32","a":[-3.0,100.0],"b":[0.25,0.1],"relations":["scale (|e|<=40)","negate","shift of sample a"]}));
    s.sample(json!({"producer":"Geometric","type":"f64","a":[0.25,2.75,100.0],"relations":["x 2^e: ln bound shifts by e ln 2 up to rounding"]}));
    rep.rule = format!("base samples: every sequence of length 2..{} over {:?} (positive ones also through Geometric/Harmonic), every pair of equal-length sequences of length 2..{} over {:?} through Paired and Unpaired, x 21 confidences x f64,f32; transformations: 9 power-of-two exponents (f32: |e|<=40; filtered so that values, squares and their rounding errors stay normal), negation, 4 shifts (only where the shifted data are exact), all n! orders of every multiset of size 3..{}; two patterns of 100 003 and 250 000 observations (beyond the switch to the normal quantile) through Arithmetic, Paired and Unpaired: negation and 3 scalings bit-exact, 5 structured orders (reversed, ascending, descending, stride, by magnitude) within tolerance; distinct by (producer, type, relation, kind)", tier.pick(3, 5), ALPHA, tier.pick(2, 3), PAIR_ALPHA, tier.pick(5, 6));
    rep.assume("scaling and negation are demanded bit-exactly for arithmetic, paired, unpaired and harmonic intervals (IEEE operations commute with exact power-of-two scaling inside the normal range and round-to-nearest is sign-symmetric); geometric intervals and the shift/permutation relations within 8u*sum|x|/n + half-width*16u*(cond1+cond2) + 4u|bound|");
    rep.require(s.distinct() >= 40, "fewer than 40 distinct classes: vacuous");
    std::process::exit(rep.finish(s));
}
