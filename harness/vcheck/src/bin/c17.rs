//! C17 — proportion CIs are monotone in the data, mirror-symmetric and shrink with n.
//! Relations between real runs over the whole admissible (n,k) triangle.

use mc::{json, par_judge, Cmd, Kind, Report, Sink, Tier, Value, KINDS};
use stats_ci::{proportion, Interval};
use vcheck::conf;

const P: &str = "C17";
const MULTS: [usize; 4] = [2, 3, 5, 10];

#[derive(Clone, Copy, Debug, PartialEq, Eq, Hash, serde::Serialize, serde::Deserialize)]
enum Method {
    Wilson,
    Wald,
}

fn call(m: Method, kind: Kind, level: f64, n: usize, k: usize) -> Option<(f64, f64)> {
    let c = conf(kind, level);
    // (a panic, e.g. an integer overflow on huge counts, is "not an interval")
    let r = mc::catch(std::panic::AssertUnwindSafe(|| match m {
        Method::Wilson => proportion::ci(c, n, k),
        Method::Wald => proportion::ci_z_normal(c, n, k),
    }));
    match r {
        Ok(Ok(Interval::TwoSided(a, b))) => Some((a, b)),
        _ => None,
    }
}

/// huge multipliers (the property quantifies over all m): the same proportion on populations
/// up to 600 * 2^40; checked for a few base populations, every admissible k
const BIG_MULTS: [usize; 3] = [1 << 20, 1 << 31, 1 << 40];
const BIG_BASES: [usize; 6] = [4, 5, 20, 64, 100, 600];

fn judge_big(m: Method, n: usize, levels: &[f64], s: &mut Sink) {
    for k in (0..=n).filter(|&k| admissible(m, n, k)) {
        for kind in KINDS {
            for &l in levels {
                let Some(b) = call(m, kind, l, n, k) else { continue };
                let case = |what: &str| json!({"m":m,"n":n,"k":k,"kind":kind,"level":l,"relation":what});
                let mut prev = b;
                let mut prev_n = n;
                for mu in BIG_MULTS {
                    s.evals += 1;
                    s.calls += 2;
                    let (bn, bk) = (mu * n, mu * k);
                    let Some(b2) = call(m, kind, l, bn, bk) else {
                        s.violation(format!("{m:?}/multiple-not-Ok"), format!("({bn}, {bk}) {} {l}: no interval (error or panic)", kind.name()), case("big-shrink"));
                        break;
                    };
                    s.outcome(&(m, "big", kind, mu));
                    // narrower than the previous population (two-sided: all levels; one-sided: levels > 1/2)
                    if kind == Kind::Two || l > 0.5 {
                        let narrower = match kind {
                            Kind::Two => b2.1 - b2.0 < prev.1 - prev.0,
                            Kind::Upper => b2.0 > prev.0,
                            Kind::Lower => b2.1 < prev.1,
                        };
                        if !narrower {
                            s.violation(format!("{m:?}/not-narrower-with-n/{}", kind.name()), format!("{} {l}: (n,k)=({prev_n},{}) gives [{}, {}], ({bn},{bk}) gives [{}, {}]", kind.name(), prev_n / n * k, prev.0, prev.1, b2.0, b2.1), case("big-shrink"));
                        }
                    }
                    // mirror image at the big population
                    if let Some(mb) = call(m, kind.flipped(), l, bn, bn - bk) {
                        let (elo, ehi) = (1.0 - mb.1, 1.0 - mb.0);
                        if !((b2.0 - elo).abs() <= 1.6e-15 && (b2.1 - ehi).abs() <= 1.6e-15) {
                            s.violation(format!("{m:?}/not-mirror-symmetric/{}", kind.name()), format!("n={bn} k={bk} {} {l}: [{}, {}] vs 1 - interval(n-k, flipped kind) = [{elo}, {ehi}]", kind.name(), b2.0, b2.1), case("big-mirror"));
                        }
                    } else {
                        s.violation(format!("{m:?}/multiple-not-Ok"), format!("({bn}, {}) {} {l}: no interval (error or panic)", bn - bk, kind.flipped().name()), case("big-mirror"));
                    }
                    if m == Method::Wilson {
                        let phat = k as f64 / n as f64;
                        if !(0.0 <= b2.0 && b2.0 <= b2.1 && b2.1 <= 1.0) || (kind == Kind::Two && !(b2.0 <= phat + 1e-15 && phat - 1e-15 <= b2.1)) {
                            s.violation("Wilson/outside-unit-interval", format!("n={bn} k={bk} {} {l}: [{}, {}]", kind.name(), b2.0, b2.1), case("big-unit"));
                        }
                    }
                    prev = b2;
                    prev_n = bn;
                }
            }
        }
    }
}

fn admissible(m: Method, n: usize, k: usize) -> bool {
    let lim = match m {
        Method::Wilson => 2,
        Method::Wald => 10,
    };
    k >= lim && k <= n && n - k >= lim
}

/// the bound(s) the confidence kind actually computes
fn finite(kind: Kind, b: (f64, f64)) -> Vec<(&'static str, f64)> {
    match kind {
        Kind::Two => vec![("low", b.0), ("high", b.1)],
        Kind::Upper => vec![("low", b.0)],
        Kind::Lower => vec![("high", b.1)],
    }
}

fn judge_n(m: Method, n: usize, levels: &[f64], s: &mut Sink) {
    // table[kind][level][k]
    let ks: Vec<usize> = (0..=n).filter(|&k| admissible(m, n, k)).collect();
    if ks.is_empty() {
        return;
    }
    // the three kinds are requested one after the other for every (level, k), so that a result
    // depending on the previous call (a cache keyed without the kind, say) cannot hide
    let mut tab: Vec<Vec<Vec<Option<(f64, f64)>>>> = vec![vec![vec![None; n + 1]; levels.len()]; 3];
    for (li, &l) in levels.iter().enumerate() {
        for &k in &ks {
            for (ki, kind) in KINDS.iter().copied().enumerate() {
                s.calls += 1;
                tab[ki][li][k] = call(m, kind, l, n, k);
                if tab[ki][li][k].is_none() {
                    s.violation(format!("{m:?}/admissible-input-not-Ok-two-sided-shape"), format!("{m:?} n={n} k={k} {} {l}", kind.name()), json!({"m":m,"n":n,"k":k,"kind":kind,"level":l}));
                }
            }
        }
    }
    // the same table once more in the order of a sweep at a fixed confidence (kind, level
    // fixed, k running): an interval is a function of (confidence, n, k) alone, so both
    // tables must agree bit for bit
    for (ki, kind) in KINDS.iter().copied().enumerate() {
        for (li, &l) in levels.iter().enumerate() {
            for &k in &ks {
                s.calls += 1;
                let again = call(m, kind, l, n, k);
                let same = match (again, tab[ki][li][k]) {
                    (Some(a), Some(b)) => a.0.to_bits() == b.0.to_bits() && a.1.to_bits() == b.1.to_bits(),
                    (None, None) => true,
                    _ => false,
                };
                if !same {
                    s.violation(format!("{m:?}/result-depends-on-previous-calls/{}", kind.name()), format!("{m:?} n={n} k={k} {} {l}: {:?} when requested after the other kinds at this level, {again:?} in a sweep over k at fixed confidence", kind.name(), tab[ki][li][k]), json!({"m":m,"n":n,"k":k,"kind":kind,"level":l,"relation":"call-order"}));
                }
            }
        }
    }
    let mname = format!("{m:?}");
    for (ki, kind) in KINDS.iter().copied().enumerate() {
        for (li, &l) in levels.iter().enumerate() {
            let case = |k: usize, what: &str| json!({"m":m,"n":n,"k":k,"kind":kind,"level":l,"relation":what});
            for (idx, &k) in ks.iter().enumerate() {
                let Some(b) = tab[ki][li][k] else { continue };
                s.evals += 1;
                let phat = k as f64 / n as f64;
                // (1) monotone in k
                if idx + 1 < ks.len() {
                    if let Some(b2) = tab[ki][li][ks[idx + 1]] {
                        for ((name, x), (_, y)) in finite(kind, b).into_iter().zip(finite(kind, b2)) {
                            if !(x <= y) {
                                s.violation(format!("{mname}/not-monotone-in-k/{name}/{}", kind.name()), format!("n={n}: {name}(k={k}) = {x} > {name}(k={}) = {y} at {} {l}", k + 1, kind.name()), case(k, "monotone-k"));
                            }
                        }
                    }
                }
                // (2) mirror symmetry: interval(n, n-k) = 1 - interval(n,k), upper<->lower exchanged
                let fk = KINDS.iter().position(|x| *x == kind.flipped()).unwrap();
                if let Some(mb) = tab[fk][li][n - k] {
                    let tol = 1.6e-15;
                    let (elo, ehi) = (1.0 - mb.1, 1.0 - mb.0);
                    let dl = (b.0 - elo).abs();
                    let dh = (b.1 - ehi).abs();
                    s.max(&format!("{mname}_mirror_abs_dev"), dl.max(dh), || format!("n={n} k={k} {} {l}", kind.name()));
                    if !(dl <= tol && dh <= tol) {
                        s.violation(format!("{mname}/not-mirror-symmetric/{}", kind.name()), format!("n={n} k={k} {} {l}: [{}, {}] vs 1 - interval(n-k, flipped kind) = [{elo}, {ehi}]", kind.name(), b.0, b.1), case(k, "mirror"));
                    }
                }
                // (3) a higher level gives a wider interval
                if li + 1 < levels.len() {
                    if let Some(b2) = tab[ki][li + 1][k] {
                        let wider = match kind {
                            Kind::Two => b2.1 - b2.0 > b.1 - b.0 && b2.0 <= b.0 && b2.1 >= b.1,
                            Kind::Upper => b2.0 < b.0,
                            Kind::Lower => b2.1 > b.1,
                        };
                        if !wider {
                            s.violation(format!("{mname}/not-wider-with-level/{}", kind.name()), format!("n={n} k={k} {}: level {l} gives [{}, {}], level {} gives [{}, {}]", kind.name(), b.0, b.1, levels[li + 1], b2.0, b2.1), case(k, "level"));
                        }
                    }
                }
                // (4) same proportion on a larger population: strictly narrower
                //     (two-sided: all levels; one-sided: claimed for levels > 1/2 only, where
                //     the finite bound lies on the far side of k/n)
                if kind == Kind::Two || l > 0.5 {
                    for mu in MULTS {
                        s.calls += 1;
                        match call(m, kind, l, mu * n, mu * k) {
                            Some(b2) => {
                                let narrower = match kind {
                                    Kind::Two => b2.1 - b2.0 < b.1 - b.0,
                                    Kind::Upper => b2.0 > b.0,
                                    Kind::Lower => b2.1 < b.1,
                                };
                                if !narrower {
                                    s.violation(format!("{mname}/not-narrower-with-n/{}", kind.name()), format!("{} {l}: (n,k)=({n},{k}) gives [{}, {}], ({},{}) gives [{}, {}]", kind.name(), b.0, b.1, mu * n, mu * k, b2.0, b2.1), case(k, "shrink"));
                                }
                            }
                            None => s.violation(format!("{mname}/multiple-not-Ok"), format!("({}, {}) {} {l}", mu * n, mu * k, kind.name()), case(k, "shrink")),
                        }
                    }
                } else {
                    s.skipped += 1;
                }
                // (5) Wilson only: bounds in [0,1]; two-sided midpoint between k/n and 1/2
                if m == Method::Wilson {
                    if !(0.0 <= b.0 && b.0 <= b.1 && b.1 <= 1.0) {
                        s.violation("Wilson/outside-unit-interval", format!("n={n} k={k} {} {l}: [{}, {}]", kind.name(), b.0, b.1), case(k, "unit"));
                    }
                    if kind == Kind::Two {
                        let mid = 0.5 * (b.0 + b.1);
                        let (a, z) = if phat <= 0.5 { (phat, 0.5) } else { (0.5, phat) };
                        if !(a - 1e-15 <= mid && mid <= z + 1e-15) {
                            s.violation("Wilson/midpoint-not-between-estimate-and-half", format!("n={n} k={k} two-sided {l}: midpoint {mid}, k/n = {phat}"), case(k, "midpoint"));
                        }
                    }
                }
                s.outcome(&(m, kind, phat < 0.5, l > 0.5));
            }
        }
    }
}

/// Breakpoint ladder of confidence levels ("all confidence levels"): tails t = 1 - L that are
/// powers of two, powers of ten and the natural machine constants (EPSILON of f64 / f32, their
/// square and cube roots), each with close neighbours t (1 +- 2^-22), t (1 +- 2^-12); one-sided
/// level 1 - t, two-sided level 1 - 2t (the same quantile), and the mirrored small levels t.
/// Along the sorted ladder a higher level must never give a narrower interval.
fn ladder_levels() -> Vec<f64> {
    let mut tails: Vec<f64> = vec![];
    for j in 1..=52 {
        tails.push(2f64.powi(-j));
    }
    for j in 1..=15 {
        tails.push(10f64.powi(-j));
    }
    let (e64, e32) = (f64::EPSILON, f32::EPSILON as f64);
    tails.extend([e64, e64.sqrt(), e64.cbrt(), e64.sqrt().sqrt(), e32, e32.sqrt(), e32.cbrt(), 2.0 * e64.sqrt(), 0.5 * e64.sqrt(), 2.0 * e32.sqrt(), 0.5 * e32]);
    let mut levels = vec![];
    for t in tails {
        for f in [1.0, 1.0 - 2f64.powi(-22), 1.0 + 2f64.powi(-22), 1.0 - 2f64.powi(-12), 1.0 + 2f64.powi(-12)] {
            let t = t * f;
            for l in [1.0 - t, 1.0 - 2.0 * t, t, 2.0 * t] {
                if l > 0.0 && l < 1.0 {
                    levels.push(l);
                }
            }
        }
    }
    levels.sort_by(|a, b| a.partial_cmp(b).unwrap());
    levels.dedup();
    levels
}

fn judge_ladder(m: Method, n: usize, k: usize, levels: &[f64], s: &mut Sink) {
    for kind in KINDS {
        let mut prev: Option<(f64, (f64, f64))> = None;
        for &l in levels {
            s.evals += 1;
            s.calls += 1;
            let case = || json!({"m":m,"n":n,"k":k,"kind":kind,"level":l,"relation":"ladder"});
            let Some(b) = call(m, kind, l, n, k) else {
                if m == Method::Wald {
                    // (a Wald bound beyond the far end of [0,1] cannot be paired with it: no interval)
                    s.skipped += 1;
                    prev = None;
                } else {
                    s.violation(format!("{m:?}/admissible-input-not-Ok-two-sided-shape"), format!("{m:?} n={n} k={k} {} {l:e}", kind.name()), case());
                }
                continue;
            };
            s.outcome(&(m, "ladder", kind, (l.max(1.0 - l)).to_bits() >> 44));
            if let Some((pl, pb)) = prev {
                let slack = 1.6e-15;
                let ok = match kind {
                    Kind::Two => b.0 <= pb.0 + slack && b.1 >= pb.1 - slack,
                    Kind::Upper => b.0 <= pb.0 + slack,
                    Kind::Lower => b.1 >= pb.1 - slack,
                };
                if !ok {
                    s.violation(format!("{m:?}/not-wider-with-level/{}", kind.name()), format!("n={n} k={k} {}: level {pl:?} gives [{:?}, {:?}], the higher level {l:?} gives [{:?}, {:?}]", kind.name(), pb.0, pb.1, b.0, b.1), case());
                }
            }
            prev = Some((l, b));
        }
    }
}

fn run(tier: Tier) -> Sink {
    let nmax = tier.pick(600, 6000);
    let levels = mc::levels(tier).to_vec();
    let mut jobs: Vec<(Method, usize)> = vec![];
    for n in 4..=nmax {
        jobs.push((Method::Wilson, n));
        if n >= 20 {
            jobs.push((Method::Wald, n));
        }
    }
    jobs.reverse(); // big ones first for load balance
    let mut s = par_judge(&jobs, |&(m, n), s| judge_n(m, n, &levels, s));
    let big: Vec<(Method, usize)> = BIG_BASES.iter().flat_map(|&n| [(Method::Wilson, n), (Method::Wald, n)]).collect();
    let b = par_judge(&big, |&(m, n), s| judge_big(m, n, &levels, s));
    let ladder = ladder_levels();
    let mut lj: Vec<(Method, usize, usize)> = vec![];
    for (n, ks) in [(20usize, vec![10usize]), (100, vec![10, 37, 50, 90]), (1000, vec![10, 500, 989]), (1usize << 20, vec![12, 1 << 19])] {
        for k in ks {
            lj.push((Method::Wilson, n, k));
            lj.push((Method::Wald, n, k));
        }
    }
    lj.push((Method::Wilson, 4, 2));
    lj.push((Method::Wilson, 7, 5));
    let l = par_judge(&lj, |&(m, n, k), s| judge_ladder(m, n, k, &ladder, s));
    s.merge(b).merge(l)
}

fn replay_case(case: &Value, s: &mut Sink) {
    let m: Method = serde_json::from_value(case["m"].clone()).unwrap();
    let n = case["n"].as_u64().unwrap() as usize;
    // the relation involves neighbours: re-run the whole row for this n on the full grid
    if case["relation"] == "ladder" {
        judge_ladder(m, n, case["k"].as_u64().unwrap() as usize, &ladder_levels(), s);
        return;
    }
    if case["relation"].as_str().unwrap_or("").starts_with("big") {
        judge_big(m, n, &mc::LG, s);
        return;
    }
    judge_n(m, n, &mc::LG, s);
}

fn main() {
    let (cmd, tier) = mc::parse_args();
    if let Cmd::Replay(p) = cmd {
        std::process::exit(mc::report::replay_main(P, &p, replay_case));
    }
    let mut rep = Report::new(P, tier);
    let mut s = run(tier);
    s.sample(json!({"m":"Wilson","n":30,"k":7,"kind":"Upper","level":0.95,"relations":["low(k=7)<=low(k=8)","[lo,1] = 1-[0,hi] of (30,23) Lower","low(0.95) > low(0.975)","low(60,14) > low(30,7)","0<=lo<=1"]}));
    s.sample(json!({"m":"Wald","n":40,"k":20,"kind":"Two","level":0.5,"relations":["mirror","monotone-k","level","shrink with m in {2,3,5,10}"]}));
    s.sample(json!({"m":"Wilson","n":4,"k":2,"kind":"Two","level":0.9999,"relations":["midpoint between k/n and 1/2"]}));
    rep.rule = format!("every admissible (n,k) (Wilson: 2<=k<=n-2, Wald: 10<=k<=n-10) for n<={} x {} levels x 3 kinds through proportion::ci / ci_z_normal, plus the same proportion at (m n, m k) for m in {{2,3,5,10}} and, for n in {{4,5,20,64,100,600}}, at m in {{2^20, 2^31, 2^40}} (chain of strictly narrower intervals, mirror image and [0,1] at the big populations; a panic counts as no interval); relations checked between real runs; a breakpoint ladder of {} levels (tails at every power of two down to 2^-52, every power of ten down to 1e-15, the machine constants EPSILON / sqrt / cbrt of f64 and f32, each with neighbours at relative distance 2^-22 and 2^-12; one-sided 1-t, two-sided 1-2t and the mirrored small levels) for 16 (method, n, k) combinations: a higher level never gives a narrower interval; every table entry computed in two call orders (kinds interleaved / sweep over k at fixed confidence) which must agree bit for bit; distinct by (method, kind, k/n<1/2, level>1/2)", tier.pick(600, 6000), mc::levels(tier).len(), ladder_levels().len());
    rep.assume("strict narrowing with n is claimed for two-sided intervals at every level and for one-sided intervals at levels > 1/2 (below 1/2 the finite bound lies beyond k/n and moves towards it, which widens [bound, 1]); those cases are counted as skipped");
    rep.assume("[0,1] and midpoint clauses are asserted for the default (Wilson) interval only; Wald bounds legitimately leave [0,1]");
    rep.require(s.distinct() >= 12, "fewer than 12 distinct classes: vacuous");
    std::process::exit(rep.finish(s));
}
