//! C18 — Confidence values are valid by construction and obey their algebraic laws.

use mc::{json, par_range, Cmd, Report, Sink, Tier, Value};
use stats_ci::error::CIError;
use stats_ci::Confidence;
use std::cmp::Ordering;
use std::panic::AssertUnwindSafe;

const P: &str = "C18";

fn boundary64() -> Vec<f64> {
    let mut v = vec![
        f64::NAN,
        -f64::NAN,
        f64::INFINITY,
        f64::NEG_INFINITY,
        0.0,
        -0.0,
        5e-324,
        -5e-324,
        f64::MIN_POSITIVE,
        -f64::MIN_POSITIVE,
        f64::MIN_POSITIVE / 2.0,
        2.0_f64.powi(-53),
        1e-300,
        0.001,
        0.25,
        0.5,
        0.95,
        0.9999,
        1.0 - 2.0_f64.powi(-53),
        1.0 - 2.0_f64.powi(-52),
        1.0,
        1.0 + 2.0_f64.powi(-52),
        1.5,
        2.0,
        100.0,
        95.0,
        -0.5,
        -0.95,
        -1.0,
        f64::MAX,
        f64::MIN,
        f64::EPSILON,
    ];
    // neighbours of 0 and 1 on both sides
    for k in 1..=4u64 {
        v.push(f64::from_bits(k));
        v.push(-f64::from_bits(k));
        v.push(f64::from_bits(1.0_f64.to_bits() - k));
        v.push(f64::from_bits(1.0_f64.to_bits() + k));
    }
    // every level of the confidence grid used by the other checks, and its f32 rounding
    for &l in mc::LG.iter() {
        v.push(l);
        v.push(l as f32 as f64);
    }
    // subnormal / tiny-normal ladder: every power of two from 2^-1074 to 2^-1000
    for e in -1074..=-1000 {
        v.push(2.0_f64.powi(e));
    }
    v
}

fn valid(x: f64) -> bool {
    x > 0.0 && x < 1.0
}

#[derive(Clone, Copy, Debug, PartialEq, serde::Serialize, serde::Deserialize)]
enum Ctor {
    New,
    NewTwoSided,
    NewUpper,
    NewLower,
}
const CTORS: [Ctor; 4] = [Ctor::New, Ctor::NewTwoSided, Ctor::NewUpper, Ctor::NewLower];

fn kind_idx(c: &Confidence) -> u8 {
    match c {
        Confidence::TwoSided(_) => 0,
        Confidence::UpperOneSided(_) => 1,
        Confidence::LowerOneSided(_) => 2,
    }
}

fn judge_ctor(ct: Ctor, x: f64, s: &mut Sink) {
    s.evals += 1;
    s.calls += 1;
    let r = mc::catch(AssertUnwindSafe(|| match ct {
        Ctor::New => Confidence::new(x),
        Ctor::NewTwoSided => Confidence::new_two_sided(x),
        Ctor::NewUpper => Confidence::new_upper(x),
        Ctor::NewLower => Confidence::new_lower(x),
    }));
    let case = json!({"check":"ctor","ctor":ct,"bits":x.to_bits()});
    let cls = if x.is_nan() { "nan" } else if x <= 0.0 { "nonpositive" } else if x >= 1.0 { "ge1" } else { "valid" };
    s.outcome(&(format!("{ct:?}"), cls, r.is_ok()));
    match (r, valid(x)) {
        (Ok(c), true) => {
            let want_kind = match ct {
                Ctor::New | Ctor::NewTwoSided => 0,
                Ctor::NewUpper => 1,
                Ctor::NewLower => 2,
            };
            if kind_idx(&c) != want_kind || c.level().to_bits() != x.to_bits() {
                s.violation(format!("ctor-wrong-value/{ct:?}"), format!("{ct:?}({x:?}) = {c:?}"), case);
            } else {
                judge_value(c, s);
            }
        }
        (Err(_), false) => {}
        (Ok(c), false) => s.violation(format!("ctor-accepts-invalid/{ct:?}/{cls}"), format!("{ct:?}({x:?}) = {c:?} instead of panicking"), case),
        (Err(m), true) => s.violation(format!("ctor-rejects-valid/{ct:?}"), format!("{ct:?}({x:?}) panicked: {m}"), case),
    }
}

fn judge_try64(x: f64, s: &mut Sink) {
    s.evals += 1;
    s.calls += 1;
    let r = Confidence::try_from(x);
    let case = json!({"check":"try_from_f64","bits":x.to_bits()});
    let cls = if x.is_nan() { "nan" } else if x <= 0.0 { "nonpositive" } else if x >= 1.0 { "ge1" } else { "valid" };
    s.outcome(&("try64", cls, r.is_ok()));
    match (r, valid(x)) {
        (Ok(c), true) => {
            if kind_idx(&c) != 0 || c.level().to_bits() != x.to_bits() {
                s.violation("try_from_f64-wrong-value", format!("try_from({x:?}) = {c:?}"), case);
            }
        }
        (Err(CIError::InvalidConfidenceLevel(y)), false) => {
            if !(y.to_bits() == x.to_bits() || (y.is_nan() && x.is_nan())) {
                s.violation("try_from_f64-wrong-payload", format!("try_from({x:?}) = InvalidConfidenceLevel({y:?})"), case);
            }
        }
        (Err(e), false) => s.violation("try_from_f64-wrong-error", format!("try_from({x:?}) = Err({e:?})"), case),
        (Ok(c), false) => s.violation(format!("try_from_f64-accepts-invalid/{cls}"), format!("try_from({x:?}) = Ok({c:?})"), case),
        (Err(e), true) => s.violation("try_from_f64-rejects-valid", format!("try_from({x:?}) = Err({e:?})"), case),
    }
}

#[inline]
fn judge_try32(bits: u32, s: &mut Sink) {
    let x = f32::from_bits(bits);
    s.evals += 1;
    s.calls += 1;
    let r = Confidence::try_from(x);
    let ok = x > 0.0 && x < 1.0;
    let good = match &r {
        Ok(c) => ok && matches!(c, Confidence::TwoSided(l) if l.to_bits() == (x as f64).to_bits()),
        Err(CIError::InvalidConfidenceLevel(y)) => !ok && (y.to_bits() == (x as f64).to_bits() || (y.is_nan() && x.is_nan())),
        Err(_) => false,
    };
    if !good {
        let cls = if x.is_nan() { "nan" } else if x <= 0.0 { "nonpositive" } else if x >= 1.0 { "ge1" } else { "valid" };
        s.violation(format!("try_from_f32/{cls}/ok={}", r.is_ok()), format!("try_from({x:?}f32 bits {bits:#010x}) = {r:?}"), json!({"check":"try_from_f32","bits":bits}));
    }
}

fn judge_value(c: Confidence, s: &mut Sink) {
    s.calls += 8;
    let case = || json!({"check":"value","kind":kind_idx(&c),"bits":c.level().to_bits()});
    let l = c.level();
    let pc = c.percent();
    if (pc - l * 100.0).abs() > 4e-16 * 100.0 * l {
        s.violation("percent-inconsistent", format!("{c:?}.percent() = {pc:?}, level = {l:?}"), case());
    }
    let (two, one, up, lo) = (c.is_two_sided(), c.is_one_sided(), c.is_upper(), c.is_lower());
    let k = kind_idx(&c);
    if (two, up, lo) != (k == 0, k == 1, k == 2) || one == two || one != (up || lo) {
        s.violation("kind-predicates-inconsistent", format!("{c:?}: two={two} one={one} upper={up} lower={lo}"), case());
    }
    let ks = c.kind().to_lowercase();
    let word = ["two", "upper", "lower"][k as usize];
    let others = ["two", "upper", "lower"].iter().filter(|w| **w != word).any(|w| ks.contains(w));
    if !ks.contains(word) || others {
        s.violation("kind-string-inconsistent", format!("{c:?}.kind() = {:?}", c.kind()), case());
    }
    let f = c.flipped();
    let ff = f.flipped();
    let want_k = [0u8, 2, 1][k as usize];
    if kind_idx(&f) != want_k || f.level().to_bits() != l.to_bits() {
        s.violation(format!("flipped-wrong/{}", ["two-sided", "upper", "lower"][k as usize]), format!("{c:?}.flipped() = {f:?}"), case());
    }
    if ff != c || kind_idx(&ff) != k || ff.level().to_bits() != l.to_bits() {
        s.violation("flipped-not-involution", format!("{c:?}.flipped().flipped() = {ff:?}"), case());
    }
    s.outcome(&("value", k, two, one, up, lo));
}

fn judge_order(vals: &[Confidence], s: &mut Sink) {
    let n = vals.len();
    let mut tab = vec![None; n * n];
    for i in 0..n {
        for j in 0..n {
            let (a, b) = (vals[i], vals[j]);
            s.evals += 1;
            s.calls += 6;
            let got = a.partial_cmp(&b);
            tab[i * n + j] = got;
            let same = kind_idx(&a) == kind_idx(&b);
            let exp = if same { a.level().partial_cmp(&b.level()) } else { None };
            let case = || json!({"check":"order","a":[kind_idx(&a), a.level().to_bits()],"b":[kind_idx(&b), b.level().to_bits()]});
            s.outcome(&("order", same, got, exp));
            if got != exp {
                s.violation(format!("partial_cmp/{}", if same { "same-kind" } else { "across-kinds" }), format!("{a:?}.partial_cmp({b:?}) = {got:?}, expected {exp:?}"), case());
            }
            let eq = a == b;
            let exp_eq = same && a.level() == b.level();
            if eq != exp_eq {
                s.violation(format!("eq/{}", if same { "same-kind" } else { "across-kinds" }), format!("{a:?} == {b:?} is {eq}"), case());
            }
            let ops = (a < b, a <= b, a > b, a >= b);
            let want = (
                got == Some(Ordering::Less),
                matches!(got, Some(Ordering::Less | Ordering::Equal)),
                got == Some(Ordering::Greater),
                matches!(got, Some(Ordering::Greater | Ordering::Equal)),
            );
            if ops != want {
                s.violation("operators-vs-partial_cmp", format!("{a:?} vs {b:?}: {ops:?} but partial_cmp = {got:?}"), case());
            }
        }
    }
    for i in 0..n {
        for j in 0..n {
            for k in 0..n {
                s.evals += 1;
                if tab[i * n + j] == Some(Ordering::Less) && tab[j * n + k] == Some(Ordering::Less) && tab[i * n + k] != Some(Ordering::Less) {
                    s.violation("order-not-transitive", format!("{:?} < {:?} < {:?}", vals[i], vals[j], vals[k]), json!({"check":"triple","i":i,"j":j,"k":k}));
                }
            }
        }
    }
}

fn order_values() -> Vec<Confidence> {
    let levels = [5e-324, 0.001, 0.25, 0.5, 0.5000000000000001, 0.9, 0.95, 0.9500000000000001, 0.975, 0.99, 0.9999, 1.0 - 2.0_f64.powi(-53)];
    let mut levels: Vec<f64> = levels.to_vec();
    // every grid level with its 1..3-ulp neighbours on both sides: levels that differ must be
    // ordered, however close (a comparison through a rounded transform of the level merges some)
    for &l in mc::LG.iter() {
        for k in 0..=3u64 {
            levels.push(f64::from_bits(l.to_bits() + k));
            levels.push(f64::from_bits(l.to_bits() - k));
        }
    }
    levels.sort_by(|a, b| a.partial_cmp(b).unwrap());
    levels.dedup();
    let mut v = vec![];
    for l in levels {
        // variants directly: the constructors are judged separately (judge_ctor)
        v.push(Confidence::TwoSided(l));
        v.push(Confidence::UpperOneSided(l));
        v.push(Confidence::LowerOneSided(l));
    }
    v
}

fn run(tier: Tier) -> Sink {
    let mut s = Sink::new();
    for x in boundary64() {
        for ct in CTORS {
            judge_ctor(ct, x, &mut s);
        }
        judge_try64(x, &mut s);
        // the same value through f32 (after rounding)
        judge_try32((x as f32).to_bits(), &mut s);
    }
    judge_order(&order_values(), &mut s);
    // the whole type in both tiers (about 1 s on 16 cores): every one of the 2^32 bit patterns
    let f32s = par_range(0, 65536, |hi, s| {
        for lo in 0..65536u32 {
            judge_try32(((hi as u32) << 16) | lo, s);
        }
    });
    let mut s = s.merge(f32s);
    // f64: every pattern of the high 32 bits (sign, exponent, 20 mantissa bits) with the low
    // word all zeros (thorough: also all ones and ...0001), through TryFrom<f64>
    let lows: &[u64] = match tier {
        Tier::Quick => &[0],
        Tier::Thorough => &[0, 0xFFFF_FFFF, 1],
    };
    for &low in lows {
        let part = par_range(0, 65536, |hi, s| {
            for lo in 0..65536u64 {
                let bits = ((hi << 16 | lo) << 32) | low;
                let x = f64::from_bits(bits);
                s.evals += 1;
                s.calls += 1;
                let r = Confidence::try_from(x);
                let ok = x > 0.0 && x < 1.0;
                let good = match &r {
                    Ok(c) => ok && matches!(c, Confidence::TwoSided(l) if l.to_bits() == bits),
                    Err(CIError::InvalidConfidenceLevel(y)) => !ok && (y.to_bits() == bits || (y.is_nan() && x.is_nan())),
                    Err(_) => false,
                };
                if !good {
                    let cls = if x.is_nan() { "nan" } else if x <= 0.0 { "nonpositive" } else if x >= 1.0 { "ge1" } else { "valid" };
                    s.violation(format!("try_from_f64/{cls}/ok={}", r.is_ok()), format!("try_from({x:?} bits {bits:#018x}) = {r:?}"), json!({"check":"try_from_f64","bits":bits}));
                }
            }
        });
        s = s.merge(part);
    }
    s
}

fn replay_case(case: &Value, s: &mut Sink) {
    match case["check"].as_str().unwrap_or("") {
        "ctor" => {
            let ct: Ctor = serde_json::from_value(case["ctor"].clone()).unwrap();
            judge_ctor(ct, f64::from_bits(case["bits"].as_u64().unwrap()), s)
        }
        "try_from_f64" => judge_try64(f64::from_bits(case["bits"].as_u64().unwrap()), s),
        "try_from_f32" => judge_try32(case["bits"].as_u64().unwrap() as u32, s),
        "value" => {
            let l = f64::from_bits(case["bits"].as_u64().unwrap());
            let c = match case["kind"].as_u64().unwrap() {
                0 => Confidence::TwoSided(l),
                1 => Confidence::UpperOneSided(l),
                _ => Confidence::LowerOneSided(l),
            };
            judge_value(c, s)
        }
        _ => judge_order(&order_values(), s),
    }
}

fn main() {
    let (cmd, tier) = mc::parse_args();
    mc::quiet_panics();
    if let Cmd::Replay(p) = cmd {
        std::process::exit(mc::report::replay_main(P, &p, replay_case));
    }
    let mut rep = Report::new(P, tier);
    let mut s = run(tier);
    s.sample(json!({"ctor":"NewUpper","x":"1.0","expect":"panic"}));
    s.sample(json!({"try_from_f64":"0.9999999999999999 (1-2^-53)","expect":"Ok(TwoSided(same bits))"}));
    s.sample(json!({"try_from_f32":"NaN (0x7fc00000)","expect":"Err(InvalidConfidenceLevel(NaN))"}));
    s.sample(json!({"order":["UpperOneSided(0.95)","LowerOneSided(0.95)"],"expect":"partial_cmp None, != "}));
    rep.rule = format!("{} boundary doubles x 4 panicking constructors + TryFrom<f64> + TryFrom<f32>; {}; all ordered pairs and triples of 36 valid confidences (12 levels incl. adjacent doubles x 3 kinds); accessor/flipped laws on every constructed value; distinct by (entry point, input class, accepted?) and (same kind?, observed, expected)", boundary64().len(), if tier == Tier::Quick { "ALL 2^32 f32 bit patterns through TryFrom<f32>; all 2^32 f64 patterns with a zero low word through TryFrom<f64>" } else { "ALL 2^32 f32 bit patterns through TryFrom<f32>; all 2^32 f64 high words x low word in {0, 0xFFFFFFFF, 1} through TryFrom<f64>" });
    rep.assume("Confidence's enum variants are public; direct variant construction bypasses the constructors by design and is not judged");
    rep.require(s.distinct() >= 20, "fewer than 20 distinct classes: vacuous");
    std::process::exit(rep.finish(s));
}
