//! C19 — approximate interval equality is kind-aware and bound-wise; Display is canonical.

use approx::{AbsDiffEq, RelativeEq, UlpsEq};
use mc::{json, Cmd, Report, Sink, Value};
use stats_ci::Interval;
use std::fmt::{Debug, Display};

const P: &str = "C19";

trait Fx: Copy + PartialOrd + Debug + Display + AbsDiffEq<Epsilon = Self> + RelativeEq + UlpsEq + 'static {
    const NAME: &'static str;
    fn of(x: f64) -> Self;
    fn f(self) -> f64;
    fn eps() -> Self;
    fn ulps_between(a: Self, b: Self) -> u64;
    // the interval-level comparisons are called on the concrete float types (not through the
    // generic parameter), so that an additional trait bound on the crate's impls cannot stop
    // this checker from compiling
    fn iv_abs(a: &Interval<Self>, b: &Interval<Self>, e: Self) -> (bool, bool);
    fn iv_rel(a: &Interval<Self>, b: &Interval<Self>, e: Self, r: Self) -> (bool, bool);
    fn iv_ulps(a: &Interval<Self>, b: &Interval<Self>, e: Self, u: u32) -> (bool, bool);
    fn iv_defaults_ok() -> bool;
}
macro_rules! iv_cmp {
    () => {
        fn iv_abs(a: &Interval<Self>, b: &Interval<Self>, e: Self) -> (bool, bool) {
            (a.abs_diff_eq(b, e), a.abs_diff_ne(b, e))
        }
        fn iv_rel(a: &Interval<Self>, b: &Interval<Self>, e: Self, r: Self) -> (bool, bool) {
            (a.relative_eq(b, e, r), a.relative_ne(b, e, r))
        }
        fn iv_ulps(a: &Interval<Self>, b: &Interval<Self>, e: Self, u: u32) -> (bool, bool) {
            (a.ulps_eq(b, e, u), a.ulps_ne(b, e, u))
        }
        fn iv_defaults_ok() -> bool {
            <Interval<Self> as AbsDiffEq>::default_epsilon() == <Self as AbsDiffEq>::default_epsilon()
                && <Interval<Self> as RelativeEq>::default_max_relative() == <Self as RelativeEq>::default_max_relative()
                && <Interval<Self> as UlpsEq>::default_max_ulps() == <Self as UlpsEq>::default_max_ulps()
        }
    };
}
impl Fx for f64 {
    iv_cmp!();
    const NAME: &'static str = "f64";
    fn of(x: f64) -> Self {
        x
    }
    fn f(self) -> f64 {
        self
    }
    fn eps() -> Self {
        f64::EPSILON
    }
    fn ulps_between(a: Self, b: Self) -> u64 {
        mc::ulps64(a, b)
    }
}
impl Fx for f32 {
    iv_cmp!();
    const NAME: &'static str = "f32";
    fn of(x: f64) -> Self {
        x as f32
    }
    fn f(self) -> f64 {
        self as f64
    }
    fn eps() -> Self {
        f32::EPSILON
    }
    fn ulps_between(a: Self, b: Self) -> u64 {
        mc::ulps32(a, b)
    }
}

fn bounds<T: Fx>() -> Vec<T> {
    let e = T::eps().f();
    vec![
        T::of(-1.0),
        T::of(-0.0),
        T::of(0.0),
        T::of(1.0),
        T::of(1.0 + e),
        T::of(1.0 + 2.0 * e),
        T::of(1.0001),
        T::of(1e10),
        T::of(1e10 * (1.0 + e)),
    ]
}

fn intervals<T: Fx>() -> Vec<Interval<T>> {
    let b = bounds::<T>();
    let mut v = vec![];
    for &x in &b {
        for &y in &b {
            if x <= y {
                v.push(Interval::TwoSided(x, y));
            }
        }
    }
    for &x in &b {
        v.push(Interval::UpperOneSided(x));
    }
    for &x in &b {
        v.push(Interval::LowerOneSided(x));
    }
    v
}

fn kind<T: PartialOrd>(iv: &Interval<T>) -> u8 {
    match iv {
        Interval::TwoSided(..) => 0,
        Interval::UpperOneSided(_) => 1,
        Interval::LowerOneSided(_) => 2,
    }
}

fn bound_pairs<T: Fx>(a: &Interval<T>, b: &Interval<T>) -> Option<Vec<(T, T)>> {
    match (a, b) {
        (Interval::TwoSided(a1, a2), Interval::TwoSided(b1, b2)) => Some(vec![(*a1, *b1), (*a2, *b2)]),
        (Interval::UpperOneSided(a1), Interval::UpperOneSided(b1)) => Some(vec![(*a1, *b1)]),
        (Interval::LowerOneSided(a1), Interval::LowerOneSided(b1)) => Some(vec![(*a1, *b1)]),
        _ => None,
    }
}

fn judge_pair<T: Fx>(i: usize, j: usize, s: &mut Sink) {
    let ivs = intervals::<T>();
    let (a, b) = (ivs[i], ivs[j]);
    let bp = bound_pairs(&a, &b);
    let case = || json!({"type":T::NAME,"i":i,"j":j});
    // tolerances generated from the pair (all bound positions of both intervals)
    let mut ds: Vec<f64> = vec![];
    let all_bounds = |iv: &Interval<T>| match iv {
        Interval::TwoSided(x, y) => vec![*x, *y],
        Interval::UpperOneSided(x) | Interval::LowerOneSided(x) => vec![*x],
    };
    let (ab, bb) = (all_bounds(&a), all_bounds(&b));
    for (k, x) in ab.iter().enumerate() {
        let y = bb[k.min(bb.len() - 1)];
        ds.push((x.f() - y.f()).abs());
    }
    let mut epsilons: Vec<T> = vec![T::of(0.0), T::default_epsilon()];
    let mut rels: Vec<T> = vec![T::of(0.0), T::default_max_relative()];
    let mut ulps: Vec<u32> = vec![0, T::default_max_ulps()];
    for (k, &d) in ds.iter().enumerate() {
        for m in [0.5, 1.0, 2.0] {
            epsilons.push(T::of(d * m));
        }
        let x = ab[k];
        let y = bb[k.min(bb.len() - 1)];
        let largest = x.f().abs().max(y.f().abs());
        if largest > 0.0 {
            for m in [0.5, 1.0, 2.0] {
                rels.push(T::of(d / largest * m));
            }
        }
        let u = T::ulps_between(x, y).min(1 << 30) as u32;
        ulps.extend([u.saturating_sub(1), u, u + 1]);
    }
    let expect = |f: &dyn Fn(T, T) -> bool| -> bool {
        match &bp {
            Some(pairs) => pairs.iter().all(|&(x, y)| f(x, y)),
            None => false,
        }
    };
    let ksig = format!("{}x{}", ["TwoSided", "Upper", "Lower"][kind(&a) as usize], ["TwoSided", "Upper", "Lower"][kind(&b) as usize]);
    for &e in &epsilons {
        s.evals += 1;
        s.calls += 3;
        let got = T::iv_abs(&a, &b, e).0;
        let exp = expect(&|x, y| T::abs_diff_eq(&x, &y, e));
        s.outcome(&("abs", &ksig, got, exp));
        if got != exp {
            s.violation(format!("abs_diff_eq/{ksig}/got={got}"), format!("{a:?}.abs_diff_eq({b:?}, {e:?}) = {got}, bound-wise = {exp}"), case());
        }
        if T::iv_abs(&a, &b, e).1 == got {
            s.violation("abs_diff_ne-not-negation", format!("{a:?} vs {b:?} eps {e:?}"), case());
        }
        if T::iv_abs(&b, &a, e).0 != got {
            s.violation(format!("abs_diff_eq-asymmetric/{ksig}"), format!("{a:?} vs {b:?} eps {e:?}"), case());
        }
        for &r in &rels {
            s.evals += 1;
            s.calls += 3;
            let got = T::iv_rel(&a, &b, e, r).0;
            let exp = expect(&|x, y| T::relative_eq(&x, &y, e, r));
            s.outcome(&("rel", &ksig, got, exp));
            if got != exp {
                s.violation(format!("relative_eq/{ksig}/got={got}"), format!("{a:?}.relative_eq({b:?}, {e:?}, {r:?}) = {got}, bound-wise = {exp}"), case());
            }
            if T::iv_rel(&a, &b, e, r).1 == got {
                s.violation("relative_ne-not-negation", format!("{a:?} vs {b:?}"), case());
            }
            if T::iv_rel(&b, &a, e, r).0 != got {
                s.violation(format!("relative_eq-asymmetric/{ksig}"), format!("{a:?} vs {b:?} eps {e:?} rel {r:?}"), case());
            }
        }
        for &u in &ulps {
            s.evals += 1;
            s.calls += 3;
            let got = T::iv_ulps(&a, &b, e, u).0;
            let exp = expect(&|x, y| T::ulps_eq(&x, &y, e, u));
            s.outcome(&("ulps", &ksig, got, exp));
            if got != exp {
                s.violation(format!("ulps_eq/{ksig}/got={got}"), format!("{a:?}.ulps_eq({b:?}, {e:?}, {u}) = {got}, bound-wise = {exp}"), case());
            }
            if T::iv_ulps(&a, &b, e, u).1 == got {
                s.violation("ulps_ne-not-negation", format!("{a:?} vs {b:?}"), case());
            }
            if T::iv_ulps(&b, &a, e, u).0 != got {
                s.violation(format!("ulps_eq-asymmetric/{ksig}"), format!("{a:?} vs {b:?} eps {e:?} ulps {u}"), case());
            }
        }
    }
    // implied by exact equality; reflexive
    if a == b {
        s.calls += 3;
        let z = T::of(0.0);
        if !(T::iv_abs(&a, &b, z).0 && T::iv_rel(&a, &b, z, z).0 && T::iv_ulps(&a, &b, z, 0).0) {
            s.violation("exact-equality-not-approx-equal", format!("{a:?} == {b:?} but not approximately equal at zero tolerance"), case());
        }
    }
    // defaults agree with the element type's
    if i == 0 && j == 0 {
        if !T::iv_defaults_ok() {
            s.violation("default-tolerances-differ", "Interval's default tolerances differ from the element type's".to_string(), case());
        }
    }
}

fn run_type<T: Fx>(s: &mut Sink) {
    let n = intervals::<T>().len();
    for i in 0..n {
        for j in 0..n {
            judge_pair::<T>(i, j, s);
        }
    }
    s.count(&format!("intervals[{}]", T::NAME), n as u64);
}

fn display_checks(s: &mut Sink) {
    fn chk<T: PartialOrd + Display + Debug + Clone>(vals: &[T], ty: &str, s: &mut Sink) {
        for a in vals {
            for b in vals {
                if a <= b {
                    let iv = Interval::TwoSided(a.clone(), b.clone());
                    s.evals += 1;
                    s.calls += 1;
                    let got = format!("{iv}");
                    let exp = format!("[{}, {}]", a, b);
                    s.outcome(&("display", 0));
                    if got != exp {
                        s.violation("display/TwoSided", format!("{iv:?} displays as {got:?}, expected {exp:?}"), json!({"check":"display","type":ty}));
                    }
                }
            }
            s.evals += 2;
            s.calls += 2;
            let up = Interval::UpperOneSided(a.clone());
            let lo = Interval::LowerOneSided(a.clone());
            let (gu, eu) = (format!("{up}"), format!("[{},->)", a));
            let (gl, el) = (format!("{lo}"), format!("(<-,{}]", a));
            s.outcome(&("display", 1));
            if gu != eu {
                s.violation("display/Upper", format!("{up:?} displays as {gu:?}, expected {eu:?}"), json!({"check":"display","type":ty}));
            }
            if gl != el {
                s.violation("display/Lower", format!("{lo:?} displays as {gl:?}, expected {el:?}"), json!({"check":"display","type":ty}));
            }
        }
    }
    // Formatting flags. The property fixes the rendering as "[low, high]" etc. "with the
    // element type's own formatting"; under a width / precision / sign flag two readings are
    // sound and both are accepted: the flags are ignored (canonical text, what the code does
    // today), or they are handed to the bounds; either may additionally be padded to the
    // requested width. Anything else (truncated text, lost bracket, lost bound) is a violation.
    macro_rules! flagged {
        ($vals:expr, $ty:expr, $($spec:literal),+) => {{
            for a in $vals.iter() {
                for b in $vals.iter() {
                    if !(a <= b) { continue; }
                    let ivs = [
                        (Interval::TwoSided(a.clone(), b.clone()), 0u8),
                        (Interval::UpperOneSided(a.clone()), 1u8),
                        (Interval::LowerOneSided(b.clone()), 2u8),
                    ];
                    for (iv, k) in ivs.iter() {
                        $(
                            s.evals += 1;
                            s.calls += 1;
                            let got = format!(concat!("{:", $spec, "}"), iv);
                            let plain = match k {
                                0 => format!("[{}, {}]", a, b),
                                1 => format!("[{},->)", a),
                                _ => format!("(<-,{}]", b),
                            };
                            let fwd = match k {
                                0 => format!(concat!("[{:", $spec, "}, {:", $spec, "}]"), a, b),
                                1 => format!(concat!("[{:", $spec, "},->)"), a),
                                _ => format!(concat!("(<-,{:", $spec, "}]"), b),
                            };
                            // padding characters a width flag may add around the whole text
                            let core = got.trim_matches(|c| c == ' ' || c == '*');
                            let core0 = got.trim_start_matches('0');
                            let ok = got == plain || got == fwd || core == plain || core == fwd || core0 == plain || core0 == fwd;
                            s.outcome(&("display-flags", $spec, *k));
                            if !ok {
                                s.violation(
                                    format!("display/flags/{}", ["TwoSided", "Upper", "Lower"][*k as usize]),
                                    format!("{iv:?} formatted with {{:{}}} gives {got:?}; accepted: {plain:?} (flags ignored) or {fwd:?} (flags applied to the bounds), optionally padded", $spec),
                                    json!({"check":"display","type":$ty}),
                                );
                            }
                        )+
                    }
                }
            }
        }};
    }
    flagged!([-1.5f64, -0.0, 0.0, 2.0, 1.2345, 25.5, 1e21, 1e-7, f64::INFINITY], "f64", ".0", ".1", ".2", ".3", ".20", "1", "12", "<12", ">40", "^40", "*^40", "+", "08.3", "40.2", "+.1");
    flagged!([-1.5f32, 0.0, 2.5, 1e21], "f32", ".0", ".2", "12", ">40.3", "+");
    flagged!([-7i32, 0, 3, i32::MAX], "i32", ".0", ".2", "1", "12", "<30", "+", "08");
    flagged!(["", "A", "a b", "\u{e9}xyz"], "&str", ".0", ".1", ".2", "1", "12", ">30");
    chk(&[-1.5, -0.0, 0.0, 2.0, 1e21, 1e-7, f64::INFINITY], "f64", s);
    chk(&[-1.5f32, 0.0, 2.5, 1e21], "f32", s);
    chk(&[-7, 0, 3, i32::MAX], "i32", s);
    chk(&["", "A", "a b", "\u{e9}"], "&str", s);
    chk(&['a', 'z'], "char", s);
}

fn replay_case(case: &Value, s: &mut Sink) {
    if case["check"] == "display" {
        display_checks(s);
        return;
    }
    let (i, j) = (case["i"].as_u64().unwrap() as usize, case["j"].as_u64().unwrap() as usize);
    match case["type"].as_str().unwrap_or("") {
        "f64" => judge_pair::<f64>(i, j, s),
        _ => judge_pair::<f32>(i, j, s),
    }
}

fn main() {
    let (cmd, tier) = mc::parse_args();
    if let Cmd::Replay(p) = cmd {
        std::process::exit(mc::report::replay_main(P, &p, replay_case));
    }
    let mut rep = Report::new(P, tier);
    let mut s = Sink::new();
    run_type::<f64>(&mut s);
    run_type::<f32>(&mut s);
    display_checks(&mut s);
    s.sample(json!({"type":"f64","a":"TwoSided(1.0, 1e10)","b":"TwoSided(1.0000000000000002, 1e10)","tolerances":"eps in {0, d/2, d, 2d, default}, max_relative in {0, d/|x|/2, d/|x|, 2d/|x|, default}, max_ulps in {0, u-1, u, u+1, default}"}));
    s.sample(json!({"type":"f32","a":"UpperOneSided(1.0)","b":"LowerOneSided(1.0)","expect":"never approximately equal (different kinds), for every tolerance"}));
    s.sample(json!({"display":"UpperOneSided(-1.5)","expect":"[-1.5,->)"}));
    rep.rule = "all ordered pairs of the 63 intervals over 9 bounds {-1,-0,+0,1,1+eps,1+2eps,1.0001,1e10,1e10(1+eps)} (f64 and f32) x tolerance grids generated from the pair's own bound differences (below, at and above each difference in absolute, relative and ulp terms, zero and defaults) through abs_diff_eq/relative_eq/ulps_eq, their _ne forms and reversed arguments; Display of every interval over float/int/str/char value sets, plain and under width/precision/sign/fill flags (accepted: flags ignored or applied to the bounds, optionally padded); distinct by (method, kinds, observed, expected)".into();
    rep.assume("the element type's own AbsDiffEq/RelativeEq/UlpsEq (approx crate) define 'approximately equal' for a bound");
    rep.require(s.distinct() >= 20, "fewer than 20 distinct classes: vacuous");
    std::process::exit(rep.finish(s));
}
