fn main() {
    let t0 = std::time::Instant::now();
    let st = mc::selftest::run();
    println!("{}", serde_json::to_string_pretty(&st.to_json()).unwrap());
    println!("ok={} msg={} in {:?}", st.ok, st.msg, t0.elapsed());
    std::process::exit(if st.ok { 0 } else { 3 });
}
