//! Intervals over a finite chain, with explicit set denotations (DESIGN §3, §5).
//!
//! A chain is a list of values `vals` with a non-decreasing position map `pos`
//! (several values may share a position: the two float zeros). Position 0 and the
//! last position are *never* used as bounds, so a one-sided interval is
//! distinguishable from every two-sided one on the finite carrier: the denotation of
//! an interval is the bit set of chain positions it contains.

use serde::{Deserialize, Serialize};
use stats_ci::Interval;

#[derive(Clone, Copy, Debug, PartialEq, Eq, Hash, PartialOrd, Ord, Serialize, Deserialize)]
pub enum Iv {
    Two(u8, u8),
    Upper(u8),
    Lower(u8),
}

pub struct Chain<T> {
    pub name: &'static str,
    pub vals: Vec<T>,
    pub pos: Vec<u8>,
}

impl<T: Clone + PartialOrd> Chain<T> {
    pub fn simple(name: &'static str, vals: Vec<T>) -> Self {
        let pos = (0..vals.len() as u8).collect();
        Chain { name, vals, pos }
    }
    pub fn with_pos(name: &'static str, vals: Vec<T>, pos: Vec<u8>) -> Self {
        assert_eq!(vals.len(), pos.len());
        Chain { name, vals, pos }
    }
    pub fn top(&self) -> u8 {
        *self.pos.last().unwrap()
    }
    /// value indices usable as bounds (positions strictly inside the chain)
    pub fn inner(&self) -> Vec<u8> {
        (0..self.vals.len() as u8).filter(|&i| self.pos[i as usize] > 0 && self.pos[i as usize] < self.top()).collect()
    }
    pub fn intervals(&self) -> Vec<Iv> {
        let inner = self.inner();
        let mut v = vec![];
        for &i in &inner {
            for &j in &inner {
                if self.pos[i as usize] <= self.pos[j as usize] {
                    v.push(Iv::Two(i, j));
                }
            }
        }
        for &i in &inner {
            v.push(Iv::Upper(i));
        }
        for &i in &inner {
            v.push(Iv::Lower(i));
        }
        v
    }
    /// bit set of chain positions contained in the interval
    pub fn bits(&self, iv: Iv) -> u32 {
        let top = self.top() as u32;
        let all = (1u32 << (top + 1)) - 1;
        let from = |i: u8| all & !((1u32 << self.pos[i as usize]) - 1);
        let upto = |j: u8| (1u32 << (self.pos[j as usize] as u32 + 1)) - 1;
        match iv {
            Iv::Two(i, j) => from(i) & upto(j),
            Iv::Upper(i) => from(i),
            Iv::Lower(j) => upto(j),
        }
    }
    /// build the real interval directly from the variants (no constructor involved)
    pub fn build(&self, iv: Iv) -> Interval<T> {
        match iv {
            Iv::Two(i, j) => Interval::TwoSided(self.vals[i as usize].clone(), self.vals[j as usize].clone()),
            Iv::Upper(i) => Interval::UpperOneSided(self.vals[i as usize].clone()),
            Iv::Lower(j) => Interval::LowerOneSided(self.vals[j as usize].clone()),
        }
    }
}

impl Iv {
    pub fn kind(self) -> &'static str {
        match self {
            Iv::Two(..) => "TwoSided",
            Iv::Upper(_) => "Upper",
            Iv::Lower(_) => "Lower",
        }
    }
}

pub fn chain_i32(n: usize) -> Chain<i32> {
    Chain::simple("i32", (0..n as i32).map(|x| x * 10 - 30).collect())
}
pub fn chain_u8(n: usize) -> Chain<u8> {
    Chain::simple("u8", (0..n as u8).map(|x| x * 20).collect())
}
pub fn chain_usize(n: usize) -> Chain<usize> {
    Chain::simple("usize", (0..n).map(|x| x * 7).collect())
}
pub fn chain_i8(n: usize) -> Chain<i8> {
    Chain::simple("i8", (0..n as i8).map(|x| x * 9 - 40).collect())
}
pub fn chain_char(n: usize) -> Chain<char> {
    Chain::simple("char", "AEJZaz~\u{e9}\u{4e2d}\u{1F600}\u{10FFFF}".chars().take(n).collect())
}
pub fn chain_str(n: usize) -> Chain<&'static str> {
    Chain::simple("&str", ["", "A", "AA", "B", "a", "ab", "b", "zz", "\u{e9}", "\u{4e2d}", "\u{1F600}"][..n].to_vec())
}
pub fn chain_string(n: usize) -> Chain<String> {
    Chain::simple("String", ["", "A", "AA", "B", "a", "ab", "b", "zz", "\u{e9}", "\u{4e2d}", "\u{1F600}"][..n].iter().map(|s| s.to_string()).collect())
}
/// float chain with both zeros sharing a position and the infinities as outer probes;
/// `n` = number of chain positions (>= 9)
pub fn chain_f64(n: usize) -> Chain<f64> {
    let mut vals = vec![f64::NEG_INFINITY, -2.5, -1.0, -0.0, 0.0, 5e-324, 1.0, 2.0];
    let mut extra = 3.0;
    // positions so far: 7 (the zero pair shares one); add until n-2, then 1e300 and +inf
    while vals.len() - 1 < n - 2 {
        vals.push(extra);
        extra += 1.0;
    }
    vals.push(1e300);
    vals.push(f64::INFINITY);
    let mut p = 0u8;
    let mut pos = vec![];
    for (i, v) in vals.iter().enumerate() {
        if i > 0 && vals[i - 1] != *v {
            p += 1;
        }
        pos.push(p);
    }
    assert_eq!(p as usize + 1, n);
    Chain::with_pos("f64", vals, pos)
}
pub fn chain_f32(n: usize) -> Chain<f32> {
    let c = chain_f64(n);
    let vals: Vec<f32> = c.vals.iter().map(|&x| if x == 5e-324 { 1e-45_f32 } else if x == 1e300 { 1e30_f32 } else { x as f32 }).collect();
    Chain::with_pos("f32", vals, c.pos)
}
