//! Shared helpers for the per-property checkers (this crate links the real stats-ci).

pub mod ivx;
pub mod meanchk;
pub mod models;
pub mod pool;

use mc::Kind;
use stats_ci::Confidence;

pub fn conf(kind: Kind, level: f64) -> Confidence {
    match kind {
        // built from the public variants: the constructors are C18's subject, and a
        // constructor that wrongly panics must not take the other checks down with it
        Kind::Two => Confidence::TwoSided(level),
        Kind::Upper => Confidence::UpperOneSided(level),
        Kind::Lower => Confidence::LowerOneSided(level),
    }
}

/// all (kind, level) pairs of a tier
pub fn confs(tier: mc::Tier) -> Vec<(Kind, f64)> {
    let mut v = vec![];
    for &l in mc::levels(tier) {
        for k in mc::KINDS {
            v.push((k, l));
        }
    }
    v
}

/// Shape of a float interval: (kind tag, low, high) with ±inf for missing sides
/// taken from the *variant*, not from the accessor functions under test.
pub fn shape64(iv: &stats_ci::Interval<f64>) -> (Kind, f64, f64) {
    match iv {
        stats_ci::Interval::TwoSided(a, b) => (Kind::Two, *a, *b),
        stats_ci::Interval::UpperOneSided(a) => (Kind::Upper, *a, f64::INFINITY),
        stats_ci::Interval::LowerOneSided(b) => (Kind::Lower, f64::NEG_INFINITY, *b),
    }
}

pub fn shape32(iv: &stats_ci::Interval<f32>) -> (Kind, f64, f64) {
    match iv {
        stats_ci::Interval::TwoSided(a, b) => (Kind::Two, *a as f64, *b as f64),
        stats_ci::Interval::UpperOneSided(a) => (Kind::Upper, *a as f64, f64::INFINITY),
        stats_ci::Interval::LowerOneSided(b) => (Kind::Lower, f64::NEG_INFINITY, *b as f64),
    }
}

/// Float abstraction used by the generic numeric checkers.
pub trait Fl: num_traits::Float + std::fmt::Debug + Send + Sync + 'static {
    const NAME: &'static str;
    /// unit roundoff
    const U: f64;
    fn of(x: f64) -> Self;
    fn f(self) -> f64;
}
impl Fl for f64 {
    const NAME: &'static str = "f64";
    const U: f64 = 1.1102230246251565e-16;
    fn of(x: f64) -> Self {
        x
    }
    fn f(self) -> f64 {
        self
    }
}
impl Fl for f32 {
    const NAME: &'static str = "f32";
    const U: f64 = 5.960464477539063e-8;
    fn of(x: f64) -> Self {
        x as f32
    }
    fn f(self) -> f64 {
        self as f64
    }
}

pub fn shape<F: Fl>(iv: &stats_ci::Interval<F>) -> (Kind, f64, f64) {
    match iv {
        stats_ci::Interval::TwoSided(a, b) => (Kind::Two, a.f(), b.f()),
        stats_ci::Interval::UpperOneSided(a) => (Kind::Upper, a.f(), f64::INFINITY),
        stats_ci::Interval::LowerOneSided(b) => (Kind::Lower, f64::NEG_INFINITY, b.f()),
    }
}

/// error variant name (payload-free) of a CIError
pub fn err_name(e: &stats_ci::error::CIError) -> &'static str {
    use stats_ci::error::CIError::*;
    match e {
        TooFewSamples(_) => "TooFewSamples",
        TooFewSuccesses(..) => "TooFewSuccesses",
        TooFewFailures(..) => "TooFewFailures",
        InvalidConfidenceLevel(_) => "InvalidConfidenceLevel",
        InvalidQuantile(_) => "InvalidQuantile",
        InvalidSuccesses(..) => "InvalidSuccesses",
        NonPositiveValue(_) => "NonPositiveValue",
        InvalidInputData => "InvalidInputData",
        FloatConversionError(_) => "FloatConversionError",
        IndexError(..) => "IndexError",
        Error(_) => "Error",
        IntervalError(_) => "IntervalError",
        DifferentSampleSizes(..) => "DifferentSampleSizes",
    }
}
