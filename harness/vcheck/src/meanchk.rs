//! Shared oracle for "interval = centre -/+ c * se with c the Student-t (or normal)
//! quantile": used by C01 (mean), C04 (unpaired), C06 (critical values).
//!
//! The implied critical value c = (bound - centre)/se (signed) is pushed through the
//! harness's own CDF and compared with the target probability (1+L)/2 resp. L.

use mc::oracle::{norm_cdf, norm_sf, t_cdf, t_sf, target_prob};
use mc::{Kind, Sink, Value};

/// Tolerance floor in probability for the implied critical value, by dof tier. It is
/// bounded below by the accuracy of the *upstream* t cdf (statrs), against which the
/// crate refines its quantile: measured against the oracle <= 1.5e-12 up to dof 100,
/// 1.7e-11 up to 1e3, 2.2e-10 up to 1e4, 1.9e-9 up to 1.3e5 (worst near the centre of
/// the distribution). Each tier leaves a factor >= 7. The observed maxima per dof decade
/// are re-reported in every evidence file.
pub fn tol_floor(dof: f64) -> f64 {
    if dof <= 100.0 {
        1e-11
    } else if dof <= 1000.0 {
        2e-10
    } else if dof <= 10_000.0 {
        2e-9
    } else {
        2e-8
    }
}

pub const SWITCH: f64 = 100_000.0;

#[derive(Clone, Debug)]
pub struct Expect {
    /// exact centre (x̄ or x̄a - x̄b), rounded once to f64
    pub center: f64,
    /// absolute tolerance for the centre of a two-sided interval
    pub center_tol: f64,
    /// exact standard error (sqrt applied in f64 to the exact rational)
    pub se: f64,
    pub dof: f64,
    /// relative forward error bound of the standard error computed in the data's float
    /// type (conditioning of the one-pass variance formula times the unit roundoff)
    pub eps: f64,
    /// unit roundoff of the float type
    pub u: f64,
    /// absolute error bound of the computed standard error when the exact variance is
    /// zero: sqrt(16 u sum(x^2) / ((n-1) n)) — the one-pass formula subtracts two equal
    /// numbers of size sum(x^2), so its result is only known to u*sum(x^2)
    pub se_abs: f64,
}

pub fn decade(dof: f64) -> &'static str {
    if dof <= 10.0 {
        "dof<=1e1"
    } else if dof <= 100.0 {
        "dof<=1e2"
    } else if dof <= 1000.0 {
        "dof<=1e3"
    } else if dof <= 10_000.0 {
        "dof<=1e4"
    } else if dof < 99_000.0 {
        "dof<99e3"
    } else if dof < SWITCH {
        "dof~1e5(t)"
    } else {
        "normal"
    }
}

/// |CDF(c) - p| using whichever tail is accurate; the reference distribution is t(dof)
/// below the switch, normal at/above it, and either within +-1 % of the switch.
pub fn cdf_dev(c: f64, dof: f64, p: f64, q: f64) -> f64 {
    let dev_t = || {
        if p > 0.5 {
            (t_sf(c, dof) - q).abs()
        } else {
            (t_cdf(c, dof) - p).abs()
        }
    };
    let dev_n = || {
        if p > 0.5 {
            (norm_sf(c) - q).abs()
        } else {
            (norm_cdf(c) - p).abs()
        }
    };
    if dof < 0.99 * SWITCH {
        dev_t()
    } else if dof > 1.01 * SWITCH {
        dev_n()
    } else {
        dev_t().min(dev_n())
    }
}

/// Judge one returned interval (shape = (kind, low, high) with +-inf for missing
/// sides) against the expectation. `sig` prefixes violation signatures, `case` is the
/// replayable description. Returns the half-width(s) actually observed (low side, high side).
#[allow(clippy::too_many_arguments)]
pub fn judge_interval(
    sig: &str,
    kind: Kind,
    level: f64,
    got: (Kind, f64, f64),
    ex: &Expect,
    case: &dyn Fn() -> Value,
    descr: &dyn Fn() -> String,
    s: &mut Sink,
) -> (Option<f64>, Option<f64>) {
    let (gk, lo, hi) = got;
    if gk != kind {
        s.violation(format!("{sig}/wrong-kind/{}", kind.name()), format!("{}: a {} confidence returned a {} interval [{lo}, {hi}]", descr(), kind.name(), gk.name()), case());
        return (None, None);
    }
    let (p, q) = target_prob(level, kind == Kind::Two);
    let mut hl = None;
    let mut hh = None;
    if lo.is_nan() || hi.is_nan() {
        s.violation(format!("{sig}/nan-bound/{}", kind.name()), format!("{}: [{lo}, {hi}]", descr()), case());
        return (None, None);
    }
    if ex.se == 0.0 {
        // constant sample: the interval must collapse onto the mean, up to the absolute
        // rounding error of the variance (conditioning is infinite here)
        // (an undefined dof — both samples of an unpaired comparison constant — is bounded by
        // the heaviest-tailed case, one degree of freedom)
        let cstar = if p == 0.5 { 0.0 } else if ex.dof.is_nan() { mc::oracle::t_ppf(p, 1.0).abs() } else if ex.dof < SWITCH { mc::oracle::t_ppf(p, ex.dof).abs() } else { mc::oracle::norm_ppf(p).abs() };
        for (name, b) in [("low", lo), ("high", hi)] {
            let allowed = 1.01 * cstar * ex.se_abs + ex.center_tol + 2.0 * ex.u * b.abs();
            if b.is_finite() && !((b - ex.center).abs() <= allowed) {
                s.violation(format!("{sig}/constant-sample-not-degenerate/{name}"), format!("{}: {name} bound {b:?}, every observation equals {:?} (allowed deviation {allowed:.3e})", descr(), ex.center), case());
            }
        }
        return (Some(0.0), Some(0.0));
    }
    let floor = tol_floor(ex.dof);
    let chk = |name: &str, b: f64, c: f64, s: &mut Sink| {
        // data-dependent part of the tolerance: relative error of se (sensitivity
        // c*pdf(c) <= 0.3) plus absolute error of the bound (mean error + final rounding
        // to the float type; sensitivity pdf <= 0.4 per unit of se)
        let delta_abs = ex.center_tol + 2.0 * ex.u * b.abs();
        let data_part = 0.3 * ex.eps + 0.4 * delta_abs / ex.se;
        if !(data_part <= 0.2 * p.min(q)) {
            // outside the conditioning domain for this level: counted, not judged
            s.skipped += 1;
            return;
        }
        let tol = floor + data_part;
        let dev = cdf_dev(c, ex.dof, p, q);
        s.max(&format!("cdf_dev[{}]", decade(ex.dof)), dev, || format!("{} {name}", descr()));
        s.max(&format!("cdf_dev_over_tol[{}]", decade(ex.dof)), dev / tol, || format!("{} {name}", descr()));
        if !(dev <= tol) {
            s.violation(
                format!("{sig}/critical-value-off/{}/{}", kind.name(), decade(ex.dof)),
                format!("{}: {name} bound {b:?} implies critical value {c:?} whose CDF at dof {} misses the target {p} by {dev:.3e} (tolerance {tol:.2e})", descr(), ex.dof),
                case(),
            );
        }
    };
    if kind != Kind::Lower {
        if !lo.is_finite() {
            s.violation(format!("{sig}/missing-low-bound/{}", kind.name()), format!("{}: low = {lo}", descr()), case());
        } else {
            let c = (ex.center - lo) / ex.se;
            chk("low", lo, c, s);
            hl = Some(ex.center - lo);
        }
    } else if lo != f64::NEG_INFINITY {
        s.violation(format!("{sig}/lower-one-sided-has-low-bound"), format!("{}: low = {lo}", descr()), case());
    }
    if kind != Kind::Upper {
        if !hi.is_finite() {
            s.violation(format!("{sig}/missing-high-bound/{}", kind.name()), format!("{}: high = {hi}", descr()), case());
        } else {
            let c = (hi - ex.center) / ex.se;
            chk("high", hi, c, s);
            hh = Some(hi - ex.center);
        }
    } else if hi != f64::INFINITY {
        s.violation(format!("{sig}/upper-one-sided-has-high-bound"), format!("{}: high = {hi}", descr()), case());
    }
    if kind == Kind::Two && lo.is_finite() && hi.is_finite() {
        let h = 0.5 * (hi - lo);
        let centre = 0.5 * (lo + hi);
        let ctol = ex.center_tol + 2.0 * ex.u * h.abs();
        s.max("center_dev_over_tol", (centre - ex.center).abs() / ctol, || descr());
        if !((centre - ex.center).abs() <= ctol) {
            s.violation(format!("{sig}/centre-off"), format!("{}: centre {centre:?} vs exact {:?} (tolerance {ctol:.3e})", descr(), ex.center), case());
        }
        let asym = ((hi - ex.center) - (ex.center - lo)).abs();
        let atol = 2.0 * ctol + 4.0 * ex.u * (ex.center.abs() + h.abs());
        if !(asym <= atol) {
            s.violation(format!("{sig}/asymmetric-half-widths"), format!("{}: [{lo:?}, {hi:?}] around {:?}", descr(), ex.center), case());
        }
    }
    (hl, hh)
}
