pub const PLACEHOLDER: u8 = 0;
