//! Accumulator models for the explicit-state searches (C09, C20): a uniform view of the
//! eight incremental state types of stats-ci, each paired with a boring reference model
//! (the list of observations delivered to the register).

use mc::exact::{exact_stats, ExactStats};
use mc::{json, Kind, Sink, Value};
use stats_ci::comparison::{Paired, Unpaired};
use stats_ci::mean::{Arithmetic, Geometric, Harmonic};
use stats_ci::{proportion, quantile, Interval, StatisticsOps};
use std::fmt::Debug;

use crate::{conf, Fl};

/// one observation delivered to a register
#[derive(Clone, Copy, Debug, PartialEq, PartialOrd, serde::Serialize, serde::Deserialize)]
pub enum Obs {
    /// a value for a one-sample statistic
    V(f64),
    /// a pair (paired comparison, or append_pair of an unpaired one)
    P(f64, f64),
    /// a value for side a / side b of an unpaired comparison
    A(f64),
    B(f64),
    /// a boolean outcome
    T(bool),
    /// an (anonymous) element counted by quantile::Stats
    U,
}

pub const QCONFS: [(Kind, f64); 3] = [(Kind::Two, 0.95), (Kind::Upper, 0.9), (Kind::Lower, 0.25)];

pub trait Acc: Clone + Debug + Send + Sync + 'static {
    const NAME: &'static str;
    fn new() -> Self;
    /// observation alphabet (first entries are used for chunks)
    fn alphabet() -> Vec<Obs>;
    fn append(&mut self, o: Obs);
    /// the chunk API(s) of the type (extend / extend_tuple / extend_a+extend_b ...)
    fn extend(&mut self, os: &[Obs]);
    fn from_iter(os: &[Obs]) -> Self;
    fn add(&self, rhs: &Self) -> Self;
    fn add_assign(&mut self, rhs: &Self);
    /// every observer, rendered injectively (bit patterns)
    fn queries(&self) -> Vec<String>;
    /// the interval query at one confidence, rendered injectively (empty for types whose
    /// interval does not go through a t / normal quantile of the register's own dof)
    fn ci_query(&self, _k: Kind, _l: f64) -> String {
        String::new()
    }
    /// invariant of one register against its model (delivery order)
    fn check(&self, model: &[Obs], case: &dyn Fn() -> Value, s: &mut Sink);
    /// the type's one-shot `ci(confidence, data)` entry point on the same observations
    /// must agree with the batch register (default: the type has no such entry point)
    fn check_oneshot(_model: &[Obs], _case: &dyn Fn() -> Value, _s: &mut Sink) {}
}

fn bits(x: f64) -> String {
    format!("{:016x}", x.to_bits())
}

fn iv_bits<F: Fl>(r: &stats_ci::CIResult<Interval<F>>) -> String {
    match r {
        Ok(iv) => {
            let (k, l, h) = crate::shape(iv);
            format!("{}[{},{}]", k.name(), bits(l), bits(h))
        }
        Err(e) => format!("Err({})", crate::err_name(e)),
    }
}

/// tolerance for comparing a statistic of two runs over the same multiset
fn tol_mean<F: Fl>(e: &ExactStats) -> f64 {
    8.0 * F::U * e.sum_abs_f() / e.n.max(1) as f64 + f64::MIN_POSITIVE
}

fn vals(model: &[Obs]) -> Vec<f64> {
    model
        .iter()
        .filter_map(|o| match o {
            Obs::V(x) => Some(*x),
            _ => None,
        })
        .collect()
}

/// shared invariant for the mean-type registers: `t` maps an observation into the space
/// in which the register accumulates (identity, ln, 1/x, difference)
#[allow(clippy::too_many_arguments)]
fn check_mean_like<F: Fl>(
    name: &str,
    count: usize,
    mean_t: Option<f64>,
    ci: &dyn Fn(Kind, f64) -> stats_ci::CIResult<Interval<F>>,
    batch_ci: &dyn Fn(Kind, f64) -> stats_ci::CIResult<Interval<F>>,
    tvals: &[f64],
    back: &dyn Fn(f64) -> f64,
    case: &dyn Fn() -> Value,
    s: &mut Sink,
) {
    let n = tvals.len();
    if count != n {
        s.violation(format!("{name}/count"), format!("sample_count {count} but {n} observations were delivered"), case());
    }
    if n == 0 {
        return;
    }
    let e = exact_stats(tvals);
    if let Some(m) = mean_t {
        // mean in the transformed space
        if !((m - e.mean_f()).abs() <= tol_mean::<F>(&e) + 4.0 * F::U * m.abs()) {
            s.violation(format!("{name}/mean"), format!("mean (accumulation space) {m:?}, exact {:?} over {n} observations", e.mean_f()), case());
        }
    }
    if n < 2 {
        // ci must be a documented error, not a panic (C11's domain); count only
        return;
    }
    let eps = 16.0 * F::U * e.cond_sumsq();
    for (kind, level) in QCONFS {
        let (got, want) = (ci(kind, level), batch_ci(kind, level));
        s.calls += 2;
        match (&got, &want) {
            (Ok(g), Ok(w)) => {
                let (gk, gl, gh) = crate::shape(g);
                let (wk, wl, wh) = crate::shape(w);
                if gk != wk {
                    s.violation(format!("{name}/ci-kind"), format!("{g:?} vs batch {w:?}"), case());
                    continue;
                }
                if !(eps <= 1e-2) {
                    s.skipped += 1;
                    continue;
                }
                for (x, y) in [(gl, wl), (gh, wh)] {
                    if x.is_infinite() || y.is_infinite() || x == y {
                        if x != y {
                            s.violation(format!("{name}/ci-differs-from-batch"), format!("{g:?} vs batch {w:?}"), case());
                        }
                        continue;
                    }
                    // compare in the accumulation space
                    let (tx, ty) = (back(x), back(y));
                    let h = (ty - e.mean_f()).abs();
                    let tol = 2.0 * (tol_mean::<F>(&e) + h * 2.0 * eps + 4.0 * F::U * ty.abs()) + 16.0 * F::U * (1.0 + ty.abs()) * if name.starts_with("Arith") || name.starts_with("Paired") || name.starts_with("Unpaired") { 0.0 } else { 1.0 };
                    s.max(&format!("merge_vs_batch_dev_over_tol[{name}]"), (tx - ty).abs() / tol, || format!("{g:?} vs {w:?}"));
                    if !((tx - ty).abs() <= tol) {
                        s.violation(format!("{name}/ci-differs-from-batch"), format!("history gives {g:?}, one batch computation over the same {n} observations gives {w:?}"), case());
                    }
                }
            }
            (Err(a), Err(b)) if crate::err_name(a) == crate::err_name(b) => {}
            _ => s.violation(format!("{name}/ci-outcome-differs-from-batch"), format!("{got:?} vs batch {want:?}"), case()),
        }
    }
}

macro_rules! mean_acc {
    ($ty:ident, $f:ty, $name:expr, $alpha:expr, $fwd:expr, $back:expr) => {
        impl Acc for $ty<$f> {
            const NAME: &'static str = $name;
            fn new() -> Self {
                <$ty<$f>>::new()
            }
            fn alphabet() -> Vec<Obs> {
                $alpha.iter().map(|&x| Obs::V(x)).collect()
            }
            fn append(&mut self, o: Obs) {
                if let Obs::V(x) = o {
                    StatisticsOps::append(self, x as $f).unwrap();
                }
            }
            fn extend(&mut self, os: &[Obs]) {
                let v: Vec<$f> = vals(os).iter().map(|&x| x as $f).collect();
                StatisticsOps::extend(self, &v).unwrap();
            }
            fn from_iter(os: &[Obs]) -> Self {
                let v: Vec<$f> = vals(os).iter().map(|&x| x as $f).collect();
                <$ty<$f> as StatisticsOps<$f>>::from_iter(&v).unwrap()
            }
            fn add(&self, rhs: &Self) -> Self {
                *self + *rhs
            }
            fn add_assign(&mut self, rhs: &Self) {
                *self += *rhs;
            }
            fn ci_query(&self, k: Kind, l: f64) -> String {
                iv_bits(&self.ci_mean(conf(k, l)))
            }
            fn queries(&self) -> Vec<String> {
                let mut q = vec![format!("count={}", self.sample_count())];
                if self.sample_count() >= 1 {
                    q.push(format!("mean={}", bits(self.sample_mean() as f64)));
                }
                if self.sample_count() >= 2 {
                    q.push(format!("sem={}", bits(self.sample_sem() as f64)));
                    for (k, l) in QCONFS {
                        q.push(iv_bits(&self.ci_mean(conf(k, l))));
                    }
                }
                q
            }
            fn check(&self, model: &[Obs], case: &dyn Fn() -> Value, s: &mut Sink) {
                let fwd: fn($f) -> $f = $fwd;
                let back: fn(f64) -> f64 = $back;
                let xs: Vec<$f> = vals(model).iter().map(|&x| x as $f).collect();
                let tv: Vec<f64> = xs.iter().map(|&x| fwd(x) as f64).collect();
                let mut sorted = xs.clone();
                sorted.sort_by(|a, b| a.partial_cmp(b).unwrap());
                let batch = if sorted.is_empty() { <$ty<$f>>::new() } else { <$ty<$f> as StatisticsOps<$f>>::from_iter(&sorted).unwrap() };
                let mean_t = if xs.is_empty() { None } else { Some(back(self.sample_mean() as f64)) };
                check_mean_like::<$f>(Self::NAME, self.sample_count(), mean_t, &|k, l| self.ci_mean(conf(k, l)), &|k, l| batch.ci_mean(conf(k, l)), &tv, &back, case, s);
            }
            fn check_oneshot(model: &[Obs], case: &dyn Fn() -> Value, s: &mut Sink) {
                let fwd: fn($f) -> $f = $fwd;
                let back: fn(f64) -> f64 = $back;
                let xs: Vec<$f> = vals(model).iter().map(|&x| x as $f).collect();
                let tv: Vec<f64> = xs.iter().map(|&x| fwd(x) as f64).collect();
                let mut sorted = xs.clone();
                sorted.sort_by(|a, b| a.partial_cmp(b).unwrap());
                let batch = <$ty<$f> as StatisticsOps<$f>>::from_iter(&sorted).unwrap();
                check_mean_like::<$f>(&format!("{}::ci(one-shot)", Self::NAME), xs.len(), None, &|k, l| <$ty<$f>>::ci(conf(k, l), &xs), &|k, l| batch.ci_mean(conf(k, l)), &tv, &back, case, s);
                check_mean_like::<$f>(&format!("{}::ci(StatisticsOps)", Self::NAME), xs.len(), None, &|k, l| <$ty<$f> as StatisticsOps<$f>>::ci(conf(k, l), &xs), &|k, l| batch.ci_mean(conf(k, l)), &tv, &back, case, s);
                check_mean_like::<$f>(&format!("{}::ci(MeanCI)", Self::NAME), xs.len(), None, &|k, l| <$ty<$f> as stats_ci::MeanCI<$f>>::ci(conf(k, l), &xs), &|k, l| batch.ci_mean(conf(k, l)), &tv, &back, case, s);
            }
        }
    };
}

const MEAN_ALPHA: [f64; 4] = [0.1, 1048576.0, -2.5, 1.0];
const POS_ALPHA: [f64; 4] = [0.1, 1024.0, 3.7, 0.5];

mean_acc!(Arithmetic, f64, "Arithmetic<f64>", MEAN_ALPHA, |x| x, |x| x);
mean_acc!(Arithmetic, f32, "Arithmetic<f32>", MEAN_ALPHA, |x| x, |x| x);
mean_acc!(Geometric, f64, "Geometric<f64>", POS_ALPHA, |x| x.ln(), |x| x.ln());
mean_acc!(Harmonic, f64, "Harmonic<f64>", POS_ALPHA, |x| 1.0 / x, |x| 1.0 / x);
mean_acc!(Geometric, f32, "Geometric<f32>", POS_ALPHA, |x| x.ln(), |x| x.ln());
mean_acc!(Harmonic, f32, "Harmonic<f32>", POS_ALPHA, |x| 1.0 / x, |x| 1.0 / x);

macro_rules! paired_acc {
    ($f:ty, $name:expr) => {
        impl Acc for Paired<$f> {
            const NAME: &'static str = $name;
            fn new() -> Self {
                Paired::default()
            }
            fn alphabet() -> Vec<Obs> {
                vec![Obs::P(0.1, 1048576.0), Obs::P(1048576.0, 0.3), Obs::P(-2.5, 1.0), Obs::P(1.0, 1.0)]
            }
            fn append(&mut self, o: Obs) {
                if let Obs::P(a, b) = o {
                    self.append_pair(a as $f, b as $f).unwrap();
                }
            }
            fn extend(&mut self, os: &[Obs]) {
                let (a, b): (Vec<$f>, Vec<$f>) = os.iter().filter_map(|o| if let Obs::P(x, y) = o { Some((*x as $f, *y as $f)) } else { None }).unzip();
                if os.len() % 2 == 0 {
                    self.extend(&a, &b).unwrap();
                } else {
                    let t: Vec<($f, $f)> = a.into_iter().zip(b).collect();
                    self.extend_tuple(&t).unwrap();
                }
            }
            fn from_iter(os: &[Obs]) -> Self {
                let mut p = Paired::default();
                Acc::extend(&mut p, os);
                p
            }
            fn add(&self, rhs: &Self) -> Self {
                self.clone() + rhs.clone()
            }
            fn add_assign(&mut self, rhs: &Self) {
                *self += rhs.clone();
            }
            fn ci_query(&self, k: Kind, l: f64) -> String {
                iv_bits(&self.ci_mean(conf(k, l)))
            }
            fn queries(&self) -> Vec<String> {
                let mut q = vec![format!("count={}", self.sample_count())];
                if self.sample_count() >= 1 {
                    q.push(format!("mean={}", bits(self.sample_mean() as f64)));
                }
                if self.sample_count() >= 2 {
                    q.push(format!("sem={}", bits(self.sample_sem() as f64)));
                    for (k, l) in QCONFS {
                        q.push(iv_bits(&self.ci_mean(conf(k, l))));
                    }
                }
                q
            }
            fn check(&self, model: &[Obs], case: &dyn Fn() -> Value, s: &mut Sink) {
                let d: Vec<$f> = model.iter().filter_map(|o| if let Obs::P(x, y) = o { Some(*x as $f - *y as $f) } else { None }).collect();
                let tv: Vec<f64> = d.iter().map(|&x| x as f64).collect();
                let mut sorted = d.clone();
                sorted.sort_by(|a, b| a.partial_cmp(b).unwrap());
                let batch = if sorted.is_empty() { Arithmetic::<$f>::new() } else { <Arithmetic<$f> as StatisticsOps<$f>>::from_iter(&sorted).unwrap() };
                let mean_t = if d.is_empty() { None } else { Some(self.sample_mean() as f64) };
                check_mean_like::<$f>(Self::NAME, self.sample_count(), mean_t, &|k, l| self.ci_mean(conf(k, l)), &|k, l| batch.ci_mean(conf(k, l)), &tv, &|x| x, case, s);
            }
            fn check_oneshot(model: &[Obs], case: &dyn Fn() -> Value, s: &mut Sink) {
                let (a, b): (Vec<$f>, Vec<$f>) = model.iter().filter_map(|o| if let Obs::P(x, y) = o { Some((*x as $f, *y as $f)) } else { None }).unzip();
                let d: Vec<$f> = a.iter().zip(&b).map(|(x, y)| *x - *y).collect();
                let tv: Vec<f64> = d.iter().map(|&x| x as f64).collect();
                let mut sorted = d.clone();
                sorted.sort_by(|p, q| p.partial_cmp(q).unwrap());
                let batch = <Arithmetic<$f> as StatisticsOps<$f>>::from_iter(&sorted).unwrap();
                check_mean_like::<$f>(&format!("{}::ci(one-shot)", Self::NAME), d.len(), None, &|k, l| Paired::<$f>::ci(conf(k, l), &a, &b), &|k, l| batch.ci_mean(conf(k, l)), &tv, &|x| x, case, s);
            }
        }
    };
}
paired_acc!(f64, "Paired<f64>");
paired_acc!(f32, "Paired<f32>");

macro_rules! unpaired_acc {
    ($f:ty, $name:expr) => {
        impl Acc for Unpaired<$f> {
            const NAME: &'static str = $name;
            fn new() -> Self {
                Unpaired::default()
            }
            fn alphabet() -> Vec<Obs> {
                // distinct value sets for the two sides, so that a mix-up is visible
                vec![Obs::A(0.1), Obs::B(1048576.0), Obs::A(-2.5), Obs::B(7.0), Obs::P(1.0, 64.0)]
            }
            fn append(&mut self, o: Obs) {
                match o {
                    Obs::A(x) => self.append_a(x as $f).unwrap(),
                    Obs::B(x) => self.append_b(x as $f).unwrap(),
                    Obs::P(x, y) => self.append_pair(x as $f, y as $f).unwrap(),
                    _ => {}
                }
            }
            fn extend(&mut self, os: &[Obs]) {
                let (a, b) = sides::<$f>(os);
                match os.len() % 3 {
                    0 => self.extend(&a, &b).unwrap(),
                    1 => {
                        self.extend_a(&a).unwrap();
                        self.extend_b(&b).unwrap();
                    }
                    _ => {
                        StatisticsOps::extend(self.stats_b_mut(), &b).unwrap();
                        StatisticsOps::extend(self.stats_a_mut(), &a).unwrap();
                    }
                }
            }
            fn from_iter(os: &[Obs]) -> Self {
                let (a, b) = sides::<$f>(os);
                if os.len() % 2 == 0 {
                    Unpaired::from_iter(&a, &b).unwrap()
                } else {
                    Unpaired::new(<Arithmetic<$f> as StatisticsOps<$f>>::from_iter(&a).unwrap(), <Arithmetic<$f> as StatisticsOps<$f>>::from_iter(&b).unwrap())
                }
            }
            fn add(&self, rhs: &Self) -> Self {
                self.clone() + rhs.clone()
            }
            fn add_assign(&mut self, rhs: &Self) {
                *self += rhs.clone();
            }
            fn ci_query(&self, k: Kind, l: f64) -> String {
                iv_bits(&self.ci_mean(conf(k, l)))
            }
            fn queries(&self) -> Vec<String> {
                let (na, nb) = (self.stats_a().sample_count(), self.stats_b().sample_count());
                let mut q = vec![format!("counts={na},{nb}")];
                if na >= 1 {
                    q.push(format!("mean_a={}", bits(self.stats_a().sample_mean() as f64)));
                }
                if nb >= 1 {
                    q.push(format!("mean_b={}", bits(self.stats_b().sample_mean() as f64)));
                }
                if na >= 2 && nb >= 2 {
                    for (k, l) in QCONFS {
                        q.push(iv_bits(&self.ci_mean(conf(k, l))));
                    }
                }
                q
            }
            fn check(&self, model: &[Obs], case: &dyn Fn() -> Value, s: &mut Sink) {
                let (a, b) = sides::<$f>(model);
                // each side is an arithmetic register fed with its own observations only
                let side = |name: &str, st: &Arithmetic<$f>, xs: &Vec<$f>, s: &mut Sink| {
                    let tv: Vec<f64> = xs.iter().map(|&x| x as f64).collect();
                    let mut sorted = xs.clone();
                    sorted.sort_by(|p, q| p.partial_cmp(q).unwrap());
                    let batch = if sorted.is_empty() { Arithmetic::<$f>::new() } else { <Arithmetic<$f> as StatisticsOps<$f>>::from_iter(&sorted).unwrap() };
                    let mean_t = if xs.is_empty() { None } else { Some(st.sample_mean() as f64) };
                    check_mean_like::<$f>(&format!("{}::{name}", Self::NAME), st.sample_count(), mean_t, &|k, l| st.ci_mean(conf(k, l)), &|k, l| batch.ci_mean(conf(k, l)), &tv, &|x| x, case, s);
                };
                side("stats_a", self.stats_a(), &a, s);
                side("stats_b", self.stats_b(), &b, s);
                // the comparison interval against one batch computation
                if a.len() >= 2 && b.len() >= 2 {
                    let (mut sa, mut sb) = (a.clone(), b.clone());
                    sa.sort_by(|p, q| p.partial_cmp(q).unwrap());
                    sb.sort_by(|p, q| p.partial_cmp(q).unwrap());
                    let (ea, eb) = (exact_stats(&a.iter().map(|&x| x as f64).collect::<Vec<_>>()), exact_stats(&b.iter().map(|&x| x as f64).collect::<Vec<_>>()));
                    let eps = 3.0 * 16.0 * <$f as Fl>::U * (ea.cond_sumsq().min(1e300) + eb.cond_sumsq().min(1e300));
                    for (kind, level) in QCONFS {
                        s.calls += 2;
                        let got = self.ci_mean(conf(kind, level));
                        let want = Unpaired::<$f>::ci(conf(kind, level), &sa, &sb);
                        match (&got, &want) {
                            (Ok(g), Ok(w)) => {
                                let (gk, gl, gh) = crate::shape(g);
                                let (wk, wl, wh) = crate::shape(w);
                                let d = ea.mean_f() - eb.mean_f();
                                let ok = gk == wk
                                    && [(gl, wl), (gh, wh)].iter().all(|&(x, y)| {
                                        x == y || (!(eps <= 1e-2)) || (x.is_finite() && y.is_finite()) && (x - y).abs() <= 2.0 * (tol_mean::<$f>(&ea) + tol_mean::<$f>(&eb) + (y - d).abs() * 2.0 * eps + 4.0 * <$f as Fl>::U * y.abs())
                                    });
                                if !ok {
                                    s.violation(format!("{}/ci-differs-from-batch", Self::NAME), format!("history gives {g:?}, batch Unpaired::ci gives {w:?}"), case());
                                }
                            }
                            (Err(x), Err(y)) if crate::err_name(x) == crate::err_name(y) => {}
                            _ => s.violation(format!("{}/ci-outcome-differs-from-batch", Self::NAME), format!("{got:?} vs {want:?}"), case()),
                        }
                    }
                }
            }
        }
    };
}

fn sides<F: Fl>(os: &[Obs]) -> (Vec<F>, Vec<F>) {
    let (mut a, mut b) = (vec![], vec![]);
    for o in os {
        match o {
            Obs::A(x) => a.push(F::of(*x)),
            Obs::B(x) => b.push(F::of(*x)),
            Obs::P(x, y) => {
                a.push(F::of(*x));
                b.push(F::of(*y));
            }
            _ => {}
        }
    }
    (a, b)
}
unpaired_acc!(f64, "Unpaired<f64>");
unpaired_acc!(f32, "Unpaired<f32>");

impl Acc for proportion::Stats {
    const NAME: &'static str = "proportion::Stats";
    fn new() -> Self {
        proportion::Stats::default()
    }
    fn alphabet() -> Vec<Obs> {
        vec![Obs::T(true), Obs::T(false)]
    }
    fn append(&mut self, o: Obs) {
        match o {
            Obs::T(true) => self.add_success(),
            Obs::T(false) => self.add_failure(),
            _ => {}
        }
    }
    fn extend(&mut self, os: &[Obs]) {
        let v: Vec<bool> = os.iter().filter_map(|o| if let Obs::T(b) = o { Some(*b) } else { None }).collect();
        if os.len() % 2 == 0 {
            self.extend(&v);
        } else {
            let ints: Vec<i32> = v.iter().map(|b| *b as i32).collect();
            self.extend_if(&ints, |x| *x == 1);
        }
    }
    fn from_iter(os: &[Obs]) -> Self {
        <proportion::Stats as FromIterator<bool>>::from_iter(os.iter().filter_map(|o| if let Obs::T(b) = o { Some(*b) } else { None }))
    }
    fn add(&self, rhs: &Self) -> Self {
        *self + *rhs
    }
    fn add_assign(&mut self, rhs: &Self) {
        *self += *rhs;
    }
    fn queries(&self) -> Vec<String> {
        let mut q = vec![format!("n={} k={}", self.population(), self.successes()), format!("significant={}", self.is_significant())];
        for (k, l) in QCONFS {
            q.push(iv_bits(&self.ci(conf(k, l))));
        }
        q
    }
    fn check(&self, model: &[Obs], case: &dyn Fn() -> Value, s: &mut Sink) {
        let n = model.len();
        let k = model.iter().filter(|o| matches!(o, Obs::T(true))).count();
        // exactly the component-wise sum
        if *self != proportion::Stats::new(n, k) || self.population() != n || self.successes() != k {
            s.violation("proportion::Stats/not-the-componentwise-sum", format!("{self:?} after delivering {n} outcomes with {k} successes"), case());
        }
        for (kind, level) in QCONFS {
            s.calls += 2;
            let (a, b) = (self.ci(conf(kind, level)), proportion::ci(conf(kind, level), n, k));
            if iv_bits(&a) != iv_bits(&b) {
                s.violation("proportion::Stats/ci-differs-from-batch", format!("{a:?} vs proportion::ci({n},{k}) = {b:?}"), case());
            }
        }
    }
}

impl Acc for quantile::Stats {
    const NAME: &'static str = "quantile::Stats";
    fn new() -> Self {
        quantile::Stats::default()
    }
    fn alphabet() -> Vec<Obs> {
        vec![Obs::U]
    }
    fn append(&mut self, o: Obs) {
        if o == Obs::U {
            // the only way to grow a quantile::Stats is merging with a population
            *self += quantile::Stats::new(1);
        }
    }
    fn extend(&mut self, os: &[Obs]) {
        *self = *self + quantile::Stats::new(os.len());
    }
    fn from_iter(os: &[Obs]) -> Self {
        quantile::Stats::new(os.len())
    }
    fn add(&self, rhs: &Self) -> Self {
        *self + *rhs
    }
    fn add_assign(&mut self, rhs: &Self) {
        *self += *rhs;
    }
    fn queries(&self) -> Vec<String> {
        let mut q = vec![format!("{self:?}")];
        for (k, l) in QCONFS {
            for qu in [0.5, 0.25] {
                q.push(match self.ci(conf(k, l), qu) {
                    Ok(iv) => format!("{iv:?}"),
                    Err(e) => format!("Err({})", crate::err_name(&e)),
                });
            }
        }
        q.push(format!("{:?}", self.index(0.5).ok()));
        q
    }
    fn check(&self, model: &[Obs], case: &dyn Fn() -> Value, s: &mut Sink) {
        let n = model.len();
        if *self != quantile::Stats::new(n) {
            s.violation("quantile::Stats/not-the-componentwise-sum", format!("{self:?} after {n} elements"), case());
        }
        for (kind, level) in QCONFS {
            s.calls += 2;
            let (a, b) = (self.ci(conf(kind, level), 0.5), quantile::ci_indices(conf(kind, level), n, 0.5));
            let same = match (&a, &b) {
                (Ok(x), Ok(y)) => x == y,
                (Err(x), Err(y)) => crate::err_name(x) == crate::err_name(y),
                _ => false,
            };
            if !same {
                s.violation("quantile::Stats/ci-differs-from-batch", format!("{a:?} vs ci_indices({n}) = {b:?}"), case());
            }
        }
    }
}

/// helper for replay files
pub fn obs_json(os: &[Obs]) -> Value {
    json!(os)
}
