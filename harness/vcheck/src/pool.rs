//! Explicit-state search over pools of real accumulator registers (C09; reused by C20).
//! A state is a pool of <= P registers, each a real stats-ci object plus its reference
//! model (the observations delivered to it); transitions are real API calls.

use crate::models::{Acc, Obs};
use mc::explore::{Bfs, BfsStats};
use mc::{json, Sink, Value};

#[derive(Clone, Debug, PartialEq, serde::Serialize, serde::Deserialize)]
pub enum Act {
    New,
    Append(usize, usize),
    Extend(usize, usize),
    FromIter(usize),
    Clone(usize),
    /// r[i] = r[i] + r[j] into a new slot (or overwriting slot i when the pool is full)
    Add(usize, usize),
    AddAssign(usize, usize),
}

#[derive(Clone)]
pub struct Pool<T: Acc> {
    pub regs: Vec<(T, Vec<Obs>)>,
    pub hist: Vec<Act>,
    pub max_regs: usize,
}

pub struct Params {
    pub max_regs: usize,
    pub max_obs: usize,
    pub depth: usize,
    pub max_states: u64,
    pub chunk_alpha: usize,
}

pub fn chunks<T: Acc>(chunk_alpha: usize) -> Vec<Vec<Obs>> {
    let a = T::alphabet();
    let k = a.len().min(chunk_alpha);
    let mut v = vec![vec![]];
    for i in 0..a.len() {
        v.push(vec![a[i]]);
    }
    for i in 0..k {
        for j in 0..k {
            v.push(vec![a[i], a[j]]);
        }
    }
    // one longer chunk
    if a.len() >= 2 {
        v.push(vec![a[0], a[1], a[0]]);
    }
    v
}

pub fn actions<T: Acc>(p: &Pool<T>, prm: &Params, nchunks: usize) -> Vec<Act> {
    let n = p.regs.len();
    let na = T::alphabet().len();
    let mut v = vec![];
    if n < prm.max_regs {
        v.push(Act::New);
        for c in 0..nchunks {
            v.push(Act::FromIter(c));
        }
        for r in 0..n {
            v.push(Act::Clone(r));
        }
    }
    for r in 0..n {
        for o in 0..na {
            v.push(Act::Append(r, o));
        }
        for c in 0..nchunks {
            v.push(Act::Extend(r, c));
        }
    }
    for i in 0..n {
        for j in 0..n {
            v.push(Act::Add(i, j));
            v.push(Act::AddAssign(i, j));
        }
    }
    v
}

fn dbg<T: std::fmt::Debug>(t: &T) -> String {
    format!("{t:?}")
}

pub fn key<T: Acc>(p: &Pool<T>) -> Vec<(String, String)> {
    let mut k: Vec<(String, String)> = p
        .regs
        .iter()
        .map(|(r, m)| {
            let mut ms: Vec<String> = m.iter().map(|o| format!("{o:?}")).collect();
            ms.sort();
            (dbg(r), ms.join(","))
        })
        .collect();
    k.sort();
    k
}

pub const CHUNK_ALPHA: usize = 3;

pub fn case_of<T: Acc>(p: &Pool<T>, act: Option<&Act>) -> Value {
    let mut h: Vec<Act> = p.hist.to_vec();
    if let Some(a) = act {
        h.push(a.clone());
    }
    json!({"check":"history","type":T::NAME,"max_regs":p.max_regs,"history":h})
}

/// apply one action with the real API; judges transition-level properties
pub fn step<T: Acc>(p: &Pool<T>, act: &Act, prm: &Params, chunk_tab: &[Vec<Obs>], s: &mut Sink) -> Option<Pool<T>> {
    let a = T::alphabet();
    let mut q = p.clone();
    q.hist.push(act.clone());
    s.evals += 1;
    s.calls += 1;
    let case = || case_of::<T>(p, Some(act));
    match act {
        Act::New => q.regs.push((T::new(), vec![])),
        Act::Append(r, o) => {
            if q.regs[*r].1.len() + 1 > prm.max_obs {
                return None;
            }
            q.regs[*r].0.append(a[*o]);
            q.regs[*r].1.push(a[*o]);
        }
        Act::Extend(r, c) => {
            let ch = &chunk_tab[*c];
            if q.regs[*r].1.len() + ch.len() > prm.max_obs {
                return None;
            }
            q.regs[*r].0.extend(ch);
            q.regs[*r].1.extend(ch.iter().cloned());
        }
        Act::FromIter(c) => {
            let ch = &chunk_tab[*c];
            q.regs.push((T::from_iter(ch), ch.clone()));
        }
        Act::Clone(r) => {
            let c = q.regs[*r].clone();
            if dbg(&c.0) != dbg(&p.regs[*r].0) {
                s.violation(format!("{}/clone-differs", T::NAME), format!("{:?} cloned as {:?}", p.regs[*r].0, c.0), case());
            }
            q.regs.push(c);
        }
        Act::Add(i, j) => {
            if q.regs[*i].1.len() + q.regs[*j].1.len() > prm.max_obs {
                return None;
            }
            let sum = q.regs[*i].0.add(&q.regs[*j].0);
            // operands survive unchanged
            if dbg(&q.regs[*i].0) != dbg(&p.regs[*i].0) || dbg(&q.regs[*j].0) != dbg(&p.regs[*j].0) {
                s.violation(format!("{}/add-mutates-operand", T::NAME), format!("{:?} + {:?}", p.regs[*i].0, p.regs[*j].0), case());
            }
            let mut m = q.regs[*i].1.clone();
            m.extend(q.regs[*j].1.iter().cloned());
            if q.regs.len() < prm.max_regs {
                q.regs.push((sum, m));
            } else {
                q.regs[*i] = (sum, m);
            }
        }
        Act::AddAssign(i, j) => {
            if q.regs[*i].1.len() + q.regs[*j].1.len() > prm.max_obs {
                return None;
            }
            let rhs = q.regs[*j].clone();
            q.regs[*i].0.add_assign(&rhs.0);
            q.regs[*i].1.extend(rhs.1.iter().cloned());
            if i != j && dbg(&q.regs[*j].0) != dbg(&p.regs[*j].0) {
                s.violation(format!("{}/add_assign-mutates-rhs", T::NAME), format!("{:?}", p.regs[*j].0), case());
            }
        }
    }
    // registers not involved must be untouched
    let touched: Vec<usize> = match act {
        Act::Append(r, _) | Act::Extend(r, _) => vec![*r],
        Act::Add(i, _) if p.regs.len() >= prm.max_regs => vec![*i],
        Act::AddAssign(i, _) => vec![*i],
        _ => vec![],
    };
    for (idx, (r, _)) in p.regs.iter().enumerate() {
        if !touched.contains(&idx) && dbg(r) != dbg(&q.regs[idx].0) {
            s.violation(format!("{}/unrelated-register-changed", T::NAME), format!("{act:?} changed register {idx}"), case());
        }
    }
    Some(q)
}

/// invariant on every (new) state: every register against its model; queries are pure
pub fn check<T: Acc>(p: &Pool<T>, s: &mut Sink) {
    let case = || case_of::<T>(p, None);
    for (r, m) in &p.regs {
        let before = dbg(r);
        let q1 = r.queries();
        let q2 = r.queries();
        s.calls += 2 * q1.len() as u64;
        if q1 != q2 {
            s.violation(format!("{}/repeated-query-differs", T::NAME), format!("{q1:?} vs {q2:?}"), case());
        }
        if dbg(r) != before {
            s.violation(format!("{}/query-modifies-state", T::NAME), format!("{before} -> {:?}", r), case());
        }
        r.check(m, &case, s);
        s.outcome(&(T::NAME, m.len(), q1.len(), crate::pool::has_comp(&before)));
        if before.contains("compensation") {
            s.count("states-exposing-a-compensation-term", 1);
        }
        if has_comp(&before) {
            s.count("states-with-nonzero-compensation", 1);
        }
    }
    // an interval is a function of (register, confidence) alone: the same confidence asked of the
    // registers of the pool one after the other (different data, hence different degrees of
    // freedom, at one quantile) must give each register what it answers on its own, i.e. right
    // after a query at another confidence
    if p.regs.len() >= 2 {
        use crate::models::QCONFS;
        for (i, (k, l)) in QCONFS.into_iter().enumerate() {
            let cross: Vec<String> = p.regs.iter().map(|(r, _)| r.ci_query(k, l)).collect();
            let (ok, ol) = QCONFS[(i + 1) % QCONFS.len()];
            for ((r, _), c) in p.regs.iter().zip(&cross) {
                let _ = r.ci_query(ok, ol);
                let alone = r.ci_query(k, l);
                s.calls += 3;
                if alone != *c {
                    s.violation(format!("{}/query-result-depends-on-previous-calls", T::NAME), format!("{:?} at {k:?} {l}: {c} right after the same query on another register of the pool, {alone} on its own", r), case());
                }
            }
        }
    }
}

/// does the Debug rendering show a non-zero compensation term? (vacuity floor only)
pub fn has_comp(d: &str) -> bool {
    d.split("compensation: ").skip(1).any(|t| {
        let v: String = t.chars().take_while(|c| !matches!(c, ' ' | ',' | '}')).collect();
        v.parse::<f64>().map(|x| x != 0.0).unwrap_or(false)
    })
}

pub fn search<T: Acc>(prm: &Params, s: &mut Sink) -> BfsStats {
    search_with::<T>(prm, &|_, _| {}, s)
}

/// the same search with an additional invariant evaluated on every new state
pub fn search_with<T: Acc>(prm: &Params, extra: &(dyn Fn(&Pool<T>, &mut Sink) + Sync), s: &mut Sink) -> BfsStats {
    let chunk_tab = chunks::<T>(prm.chunk_alpha);
    let nch = chunk_tab.len();
    let bfs = Bfs {
        actions: &|p: &Pool<T>| actions::<T>(p, prm, nch),
        step: &|p: &Pool<T>, a: &Act, sink: &mut Sink| step::<T>(p, a, prm, &chunk_tab, sink),
        key: &|p: &Pool<T>| key::<T>(p),
        check: &|p: &Pool<T>, sink: &mut Sink| {
            check::<T>(p, sink);
            extra(p, sink);
        },
        max_depth: prm.depth,
        max_states: prm.max_states,
    };
    bfs.run(vec![Pool { regs: vec![], hist: vec![], max_regs: prm.max_regs }], s)
}

/// replay one recorded history, judging every step and every intermediate state
pub fn replay<T: Acc>(hist: &[Act], max_regs: usize, s: &mut Sink) {
    replay_with::<T>(hist, max_regs, &|_, _| {}, s)
}

pub fn replay_with<T: Acc>(hist: &[Act], max_regs: usize, extra: &dyn Fn(&Pool<T>, &mut Sink), s: &mut Sink) {
    let prm = Params { max_regs, max_obs: 64, depth: 0, max_states: 0, chunk_alpha: CHUNK_ALPHA };
    let chunk_tab = chunks::<T>(CHUNK_ALPHA);
    let mut p = Pool::<T> { regs: vec![], hist: vec![], max_regs };
    for a in hist {
        match step::<T>(&p, a, &prm, &chunk_tab, s) {
            Some(n) => {
                check::<T>(&n, s);
                extra(&n, s);
                p = n;
            }
            None => break,
        }
    }
}
