//! C09 (schedules) — loom exploration of a caller-side parallel reduce.
//! Three worker threads each build a partial state from their chunk with the real API
//! and merge it (a) into a mutex-protected accumulator with `+=`, (b) through an mpsc
//! channel to a reducer that merges in arrival order. loom explores every interleaving;
//! for every complete execution the final state is checked against the batch result.
//! Output: /verif/evidence/C09.loom.json; exit 1 + VIOLATION line on a violation,
//! exit 3 if the exploration was vacuous (fewer than 6 merge orders).

use loom::sync::{mpsc, Arc, Mutex};
use loom::thread;
use stats_ci::comparison::Unpaired;
use stats_ci::mean::Arithmetic;
use stats_ci::{proportion, Confidence, StatisticsOps};
use std::collections::BTreeSet;
use std::sync::Mutex as StdMutex;

#[derive(Default)]
struct Collected {
    executions: u64,
    orders: BTreeSet<Vec<u8>>,
    finals: BTreeSet<String>,
    failures: Vec<(Vec<u8>, String)>,
}

trait Part: Clone + Send + std::fmt::Debug + 'static {
    const NAME: &'static str;
    fn empty() -> Self;
    fn build(worker: usize) -> Self;
    fn merge(&mut self, rhs: Self);
    /// Err(description) if the merged state does not equal the batch result
    fn verify(&self) -> Result<(), String>;
}

const CHUNKS: [&[f64]; 3] = [&[1.0, 0.1], &[1048576.0, 0.1, 0.3], &[-1048576.0, 1.0]];

fn close(a: f64, b: f64, tol: f64) -> bool {
    a == b || (a - b).abs() <= tol
}

impl Part for Arithmetic<f64> {
    const NAME: &'static str = "Arithmetic<f64>";
    fn empty() -> Self {
        Arithmetic::new()
    }
    fn build(w: usize) -> Self {
        Arithmetic::from_iter(&CHUNKS[w].to_vec()).unwrap()
    }
    fn merge(&mut self, rhs: Self) {
        *self += rhs;
    }
    fn verify(&self) -> Result<(), String> {
        let all: Vec<f64> = CHUNKS.iter().flat_map(|c| c.iter().cloned()).collect();
        let batch = Arithmetic::<f64>::from_iter(&all).unwrap();
        let sum_abs: f64 = all.iter().map(|x| x.abs()).sum();
        let tol = 16.0 * 1.2e-16 * sum_abs / all.len() as f64;
        if self.sample_count() != all.len() {
            return Err(format!("count {} != {}", self.sample_count(), all.len()));
        }
        if !close(self.sample_mean(), batch.sample_mean(), tol) {
            return Err(format!("mean {} vs batch {}", self.sample_mean(), batch.sample_mean()));
        }
        let c = Confidence::new_two_sided(0.95);
        let (a, b) = (self.ci_mean(c).map_err(|e| e.to_string())?, batch.ci_mean(c).map_err(|e| e.to_string())?);
        // cond(variance) of this data set is ~1: bounds agree to ~1e-10 relative at worst
        let scale = b.high_f() - b.low_f();
        if !close(a.low_f(), b.low_f(), 1e-9 * scale) || !close(a.high_f(), b.high_f(), 1e-9 * scale) {
            return Err(format!("ci {a:?} vs batch {b:?}"));
        }
        Ok(())
    }
}

impl Part for Unpaired<f64> {
    const NAME: &'static str = "Unpaired<f64>";
    fn empty() -> Self {
        Unpaired::default()
    }
    fn build(w: usize) -> Self {
        // side a gets the worker's chunk, side b a shifted copy
        let a = CHUNKS[w].to_vec();
        let b: Vec<f64> = CHUNKS[(w + 1) % 3].iter().map(|x| x * 0.5 + 7.0).collect();
        Unpaired::from_iter(&a, &b).unwrap()
    }
    fn merge(&mut self, rhs: Self) {
        *self += rhs;
    }
    fn verify(&self) -> Result<(), String> {
        let a: Vec<f64> = CHUNKS.iter().flat_map(|c| c.iter().cloned()).collect();
        let b: Vec<f64> = (0..3).flat_map(|w| CHUNKS[(w + 1) % 3].iter().map(|x| x * 0.5 + 7.0)).collect();
        let batch = Unpaired::<f64>::from_iter(&a, &b).unwrap();
        if self.stats_a().sample_count() != a.len() || self.stats_b().sample_count() != b.len() {
            return Err(format!("counts {} {}", self.stats_a().sample_count(), self.stats_b().sample_count()));
        }
        let tol = 1e-9 * 1048576.0;
        if !close(self.stats_a().sample_mean(), batch.stats_a().sample_mean(), tol) || !close(self.stats_b().sample_mean(), batch.stats_b().sample_mean(), tol) {
            return Err(format!("side means {} {} vs batch {} {}", self.stats_a().sample_mean(), self.stats_b().sample_mean(), batch.stats_a().sample_mean(), batch.stats_b().sample_mean()));
        }
        let c = Confidence::new_upper(0.9);
        let (x, y) = (self.ci_mean(c).map_err(|e| e.to_string())?, batch.ci_mean(c).map_err(|e| e.to_string())?);
        if !close(x.low_f(), y.low_f(), 1e-6 * y.low_f().abs().max(1.0)) {
            return Err(format!("ci {x:?} vs batch {y:?}"));
        }
        Ok(())
    }
}

impl Part for proportion::Stats {
    const NAME: &'static str = "proportion::Stats";
    fn empty() -> Self {
        proportion::Stats::default()
    }
    fn build(w: usize) -> Self {
        let data: [&[bool]; 3] = [&[true, false, true], &[false, false], &[true, true, true, false]];
        let mut s = proportion::Stats::default();
        s.extend(&data[w].to_vec());
        s
    }
    fn merge(&mut self, rhs: Self) {
        *self += rhs;
    }
    fn verify(&self) -> Result<(), String> {
        if *self == proportion::Stats::new(9, 5) {
            Ok(())
        } else {
            Err(format!("{self:?} != Stats::new(9, 5)"))
        }
    }
}

fn explore_mutex<T: Part>() -> Collected {
    let col: &'static StdMutex<Collected> = Box::leak(Box::new(StdMutex::new(Collected::default())));
    let mut b = loom::model::Builder::new();
    b.preemption_bound = None;
    b.check(move || {
        let acc = Arc::new(Mutex::new((T::empty(), Vec::<u8>::new())));
        let hs: Vec<_> = (0..3)
            .map(|w| {
                let acc = acc.clone();
                thread::spawn(move || {
                    let part = T::build(w);
                    let mut g = acc.lock().unwrap();
                    g.0.merge(part);
                    g.1.push(w as u8);
                })
            })
            .collect();
        for h in hs {
            h.join().unwrap();
        }
        let g = acc.lock().unwrap();
        let mut c = col.lock().unwrap();
        c.executions += 1;
        c.orders.insert(g.1.clone());
        c.finals.insert(format!("{:?}", g.0));
        if let Err(e) = g.0.verify() {
            if c.failures.len() < 10 {
                c.failures.push((g.1.clone(), e));
            }
        }
    });
    std::mem::take(&mut *col.lock().unwrap())
}

fn explore_channel<T: Part>() -> Collected {
    let col: &'static StdMutex<Collected> = Box::leak(Box::new(StdMutex::new(Collected::default())));
    let mut b = loom::model::Builder::new();
    b.preemption_bound = None;
    b.check(move || {
        let (tx, rx) = mpsc::channel::<(u8, T)>();
        let hs: Vec<_> = (0..3)
            .map(|w| {
                let tx = tx.clone();
                thread::spawn(move || {
                    tx.send((w as u8, T::build(w))).unwrap();
                })
            })
            .collect();
        drop(tx);
        // reducer: identity element, merge in arrival order
        let mut acc = T::empty();
        let mut order = vec![];
        for _ in 0..3 {
            let (w, part) = rx.recv().unwrap();
            acc.merge(part);
            order.push(w);
        }
        for h in hs {
            h.join().unwrap();
        }
        let mut c = col.lock().unwrap();
        c.executions += 1;
        c.orders.insert(order.clone());
        c.finals.insert(format!("{:?}", acc));
        if let Err(e) = acc.verify() {
            if c.failures.len() < 10 {
                c.failures.push((order, e));
            }
        }
    });
    std::mem::take(&mut *col.lock().unwrap())
}

fn main() {
    let root = mc::report::verif_root();
    let t0 = std::time::Instant::now();
    let mut out = vec![];
    let mut violations = vec![];
    let mut vacuous = vec![];
    macro_rules! run {
        ($t:ty) => {
            for (shape, c) in [("mutex-protected accumulator, +=", explore_mutex::<$t>()), ("mpsc channel to a reducer, arrival order", explore_channel::<$t>())] {
                if c.orders.len() < 6 {
                    vacuous.push(format!("{} / {shape}: only {} merge orders", <$t>::NAME, c.orders.len()));
                }
                for (order, e) in &c.failures {
                    violations.push(serde_json::json!({"type": <$t>::NAME, "harness": shape, "merge_order": order, "failure": e}));
                }
                out.push(serde_json::json!({"type": <$t>::NAME, "harness": shape, "executions": c.executions, "distinct_merge_orders": c.orders.len(), "distinct_final_register_contents": c.finals.len(), "failures": c.failures.len(), "preemption_bound": "none (unbounded)"}));
            }
        };
    }
    run!(Arithmetic<f64>);
    run!(Unpaired<f64>);
    run!(proportion::Stats);
    let total: u64 = out.iter().map(|o| o["executions"].as_u64().unwrap()).sum();
    let ev = serde_json::json!({"engine":"loom 0.7 (all interleavings, no preemption bound)","threads":3,"harnesses":out,"total_executions":total,"violations":violations.len(),"wall_s":t0.elapsed().as_secs_f64()});
    let _ = std::fs::create_dir_all(root.join("evidence"));
    std::fs::write(root.join("evidence").join("C09.loom.json"), serde_json::to_string_pretty(&ev).unwrap()).unwrap();
    println!("C09 schedules (loom): {total} executions over 6 harness runs, {} violations, {:.1}s", violations.len(), t0.elapsed().as_secs_f64());
    if !violations.is_empty() {
        let _ = std::fs::create_dir_all(root.join("replays"));
        let p = root.join("replays").join("C09-loom.json");
        std::fs::write(&p, serde_json::to_string_pretty(&serde_json::json!({"property":"C09","signature":"schedules/merged-state-differs-from-batch","case":{"check":"loom","failures":violations}})).unwrap()).unwrap();
        println!("VIOLATION property=C09 replay={}", p.display());
        println!("  signature: schedules/merged-state-differs-from-batch\n  detail: {}", violations[0]);
        std::process::exit(1);
    }
    if !vacuous.is_empty() {
        eprintln!("MACHINERY-ERROR: vacuous schedule exploration: {vacuous:?}");
        std::process::exit(3);
    }
}
