//! C02 (serde half) — "every front-end returns exactly the interval of the counts it implies;
//! other counts give TooFewSuccesses / TooFewFailures / InvalidSuccesses": a running
//! `proportion::Stats` can also come out of a deserializer, which does not go through
//! `Stats::new`. Every (population, successes) pair of a small box — including successes >
//! population — is deserialized from JSON and from the positional format; if the
//! deserializer accepts it, `Stats::ci` must answer exactly like `ci_wilson` on the same two
//! numbers (same interval bit for bit, or the same error variant), never panic, never return a
//! NaN bound. A deserializer that rejects inconsistent counts is equally fine.
//! Output: /verif/evidence/C02.serde.json; VIOLATION lines + exit 1 on a violation.
#[path = "positional.rs"]
#[allow(dead_code)]
mod positional;

use positional::Tok;
use serde_json::json;
use stats_ci::{proportion, Confidence};

fn main() {
    mc::quiet_panics();
    let root = mc::report::verif_root();
    let t0 = std::time::Instant::now();
    let tier = std::env::args().nth(1).unwrap_or_else(|| "quick".into());
    let nmax: usize = if tier == "thorough" { 60 } else { 16 };
    let mut confs = vec![];
    for l in [0.001, 0.5, 0.9, 0.95, 0.9999] {
        confs.extend([Confidence::TwoSided(l), Confidence::UpperOneSided(l), Confidence::LowerOneSided(l)]);
    }
    let (mut evals, mut accepted, mut rejected, mut inconsistent_accepted) = (0u64, 0u64, 0u64, 0u64);
    let mut viol: Vec<(String, String, serde_json::Value)> = vec![];
    let mut pairs: Vec<(usize, usize)> = vec![];
    for n in 0..=nmax {
        for k in 0..=n + 3 {
            pairs.push((n, k));
        }
    }
    pairs.extend([(5, 1 << 40), (1 << 33, (1 << 33) + 1), (0, usize::MAX >> 1), (usize::MAX >> 1, usize::MAX >> 1)]);
    for &(n, k) in &pairs {
        let sources: [(&str, Result<proportion::Stats, String>); 2] = [
            ("json", serde_json::from_value(json!({"population": n, "successes": k})).map_err(|e| e.to_string())),
            ("positional", positional::from_tokens(&[Tok::U(n as u128), Tok::U(k as u128)]).map_err(|e| e.to_string())),
        ];
        for (fmt, st) in sources {
            let case = json!({"check":"deserialized-stats","population":n,"successes":k,"format":fmt});
            let st = match st {
                Err(_) if k > n => {
                    rejected += 1;
                    continue;
                }
                Err(e) => {
                    viol.push(("deserialized-stats/consistent-counts-rejected".into(), format!("population {n}, successes {k} ({fmt}): {e}"), case));
                    continue;
                }
                Ok(st) => st,
            };
            accepted += 1;
            if k > n {
                inconsistent_accepted += 1;
            }
            match mc::catch(move || (st.population(), st.successes())) {
                Ok((pn, pk)) if (pn, pk) == (n, k) => {}
                other => viol.push(("deserialized-stats/accessors-differ".into(), format!("population {n}, successes {k} ({fmt}): accessors report {other:?}"), case.clone())),
            }
            for &c in &confs {
                evals += 1;
                let want = mc::catch(move || proportion::ci_wilson(c, n, k));
                let got = mc::catch(move || st.ci(c));
                let show = |r: &Result<Result<stats_ci::Interval<f64>, stats_ci::error::CIError>, String>| match r {
                    Ok(Ok(iv)) => format!("Ok({iv:?})"),
                    Ok(Err(e)) => format!("Err({})", vcheck::err_name(e)),
                    Err(p) => format!("panic({p})"),
                };
                let same = match (&want, &got) {
                    (Ok(Ok(a)), Ok(Ok(b))) => format!("{a:?}") == format!("{b:?}") && !format!("{b:?}").contains("NaN"),
                    (Ok(Err(a)), Ok(Err(b))) => vcheck::err_name(a) == vcheck::err_name(b) || (k <= n && (k < 2 || n - k < 2)),
                    _ => false,
                };
                if !same {
                    let class = match &got {
                        Err(_) => "panic",
                        Ok(Ok(_)) => "ok-differs",
                        Ok(Err(_)) => "error-differs",
                    };
                    viol.push((format!("deserialized-stats/ci-not-the-interval-of-the-counts/{class}"), format!("Stats{{population: {n}, successes: {k}}} restored from {fmt}: Stats::ci({c:?}) = {} but ci_wilson({c:?}, {n}, {k}) = {}", show(&got), show(&want)), case.clone()));
                }
            }
        }
    }
    // group by signature, keep the first (smallest) case of each
    let mut by_sig: std::collections::BTreeMap<String, (String, serde_json::Value, usize)> = Default::default();
    for (sig, detail, case) in viol {
        by_sig.entry(sig).and_modify(|e| e.2 += 1).or_insert((detail, case, 1));
    }
    let ev = json!({"engine":"exhaustive enumeration of deserialized (population, successes) pairs","box":format!("population 0..={nmax}, successes 0..=population+3, 4 large pairs; 2 formats; {} confidences", confs.len()),
        "evaluations":evals,"accepted_by_the_deserializer":accepted,"rejected_by_the_deserializer":rejected,"inconsistent_counts_accepted":inconsistent_accepted,"violations":by_sig.len(),"wall_s":t0.elapsed().as_secs_f64()});
    let _ = std::fs::create_dir_all(root.join("evidence"));
    std::fs::write(root.join("evidence").join("C02.serde.json"), serde_json::to_string_pretty(&ev).unwrap()).unwrap();
    println!("C02 deserialized Stats: {evals} evaluations, {accepted} accepted / {rejected} rejected by the deserializer, {} violation signatures, {:.1}s", by_sig.len(), t0.elapsed().as_secs_f64());
    if accepted == 0 {
        eprintln!("MACHINERY-ERROR: no deserialized Stats was accepted: vacuous");
        std::process::exit(3);
    }
    if !by_sig.is_empty() {
        let _ = std::fs::create_dir_all(root.join("replays"));
        for (i, (sig, (detail, case, n))) in by_sig.iter().enumerate() {
            let p = root.join("replays").join(format!("C02-serde-{i:03}.json"));
            std::fs::write(&p, serde_json::to_string_pretty(&json!({"property":"C02","signature":sig,"detail":detail,"case":case})).unwrap()).unwrap();
            println!("VIOLATION property=C02 replay={}", p.display());
            println!("  signature: {sig}\n  detail: {detail} ({n} case(s))");
        }
        std::process::exit(1);
    }
}
