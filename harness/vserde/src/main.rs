//! C20 — every advertised feature set builds; serialized state round-trips losslessly.
//! (configurations) checks/c20.sh builds the five advertised feature sets from /repo's
//! working tree and hands the results to this binary; (round trip) the C09 pool search
//! with a RoundTrip through CBOR / JSON / TOML / a positional format evaluated in EVERY reachable state.

mod positional;

use mc::{json, Cmd, Report, Sink, Tier, Value};
use serde::de::DeserializeOwned;
use serde::Serialize;
use stats_ci::comparison::{Paired, Unpaired};
use stats_ci::mean::{Arithmetic, Geometric, Harmonic};
use stats_ci::{proportion, Confidence, Interval};
use std::fmt::Debug;
use vcheck::models::Acc;
use vcheck::pool::{case_of, replay_with, search_with, Act, Params, Pool, CHUNK_ALPHA};

const P: &str = "C20";

#[derive(Clone, Copy, Debug, PartialEq)]
enum Fmt {
    Cbor,
    Json,
    Toml,
    /// a positional, non-self-describing format in the style of bincode / postcard (positional.rs)
    Positional,
}
const FMTS: [Fmt; 4] = [Fmt::Cbor, Fmt::Json, Fmt::Toml, Fmt::Positional];

#[derive(serde::Serialize, serde::Deserialize)]
struct Wrap<T> {
    v: T,
}

/// Ok(restored) / Err(message); Ok(None) when the format cannot carry the value
/// (JSON has no representation for non-finite floats)
fn round_trip<T: Serialize + DeserializeOwned>(f: Fmt, t: &T, has_nonfinite: bool) -> Result<Option<T>, String> {
    match f {
        Fmt::Cbor => {
            let mut buf = vec![];
            ciborium::ser::into_writer(t, &mut buf).map_err(|e| format!("cbor serialize: {e}"))?;
            ciborium::de::from_reader(buf.as_slice()).map(Some).map_err(|e| format!("cbor deserialize: {e}"))
        }
        Fmt::Json => {
            if has_nonfinite {
                return Ok(None);
            }
            let s = serde_json::to_string(t).map_err(|e| format!("json serialize: {e}"))?;
            serde_json::from_str(&s).map(Some).map_err(|e| format!("json deserialize: {e} in {s}"))
        }
        Fmt::Positional => {
            let toks = positional::to_tokens(t).map_err(|e| format!("positional serialize: {e}"))?;
            positional::from_tokens(&toks).map(Some).map_err(|e| format!("positional deserialize: {e} in {toks:?}"))
        }
        Fmt::Toml => {
            let s = toml::to_string(&Wrap { v: t }).map_err(|e| format!("toml serialize: {e}"))?;
            toml::from_str::<Wrap<T>>(&s).map(|w| Some(w.v)).map_err(|e| format!("toml deserialize: {e} in {s}"))
        }
    }
}

fn dbg<T: Debug>(t: &T) -> String {
    format!("{t:?}")
}

/// extra invariant on every state of the pool search: each register survives every format
fn rt_check<T: Acc + Serialize + DeserializeOwned + PartialEq>(p: &Pool<T>, s: &mut Sink) {
    let case = || {
        let mut c = case_of::<T>(p, None);
        c["check"] = json!("roundtrip");
        c
    };
    let alpha = T::alphabet();
    for (r, _model) in &p.regs {
        let d0 = dbg(r);
        let nonfinite = d0.contains("inf") || d0.contains("NaN");
        for f in FMTS {
            s.evals += 1;
            s.calls += 2;
            match round_trip(f, r, nonfinite) {
                Ok(None) => s.skipped += 1,
                Err(e) => s.violation(format!("{}/{f:?}/round-trip-fails", T::NAME), format!("{d0}: {e}"), case()),
                Ok(Some(back)) => {
                    s.outcome(&(T::NAME, format!("{f:?}"), vcheck::pool::has_comp(&d0)));
                    if dbg(&back) != d0 {
                        s.violation(format!("{}/{f:?}/restored-state-differs", T::NAME), format!("{d0} restored as {:?}", back), case());
                        continue;
                    }
                    if !(back == *r) && !nonfinite {
                        s.violation(format!("{}/{f:?}/restored-not-equal", T::NAME), format!("{d0} != restored"), case());
                    }
                    if back.queries() != r.queries() {
                        s.violation(format!("{}/{f:?}/restored-reports-different-statistics", T::NAME), format!("{:?} vs {:?}", back.queries(), r.queries()), case());
                    }
                    // continuations: the restored register accumulates identically
                    for &o in &alpha {
                        let (mut a, mut b) = (r.clone(), back.clone());
                        a.append(o);
                        b.append(o);
                        s.calls += 2;
                        if dbg(&a) != dbg(&b) {
                            s.violation(format!("{}/{f:?}/restored-continues-differently", T::NAME), format!("append({o:?}): {:?} vs {:?}", a, b), case());
                        }
                    }
                    let (m1, m2) = (r.add(r), back.add(&back));
                    let (m3, m4) = (r.add(&back), back.add(r));
                    s.calls += 4;
                    if dbg(&m1) != dbg(&m2) || dbg(&m1) != dbg(&m3) || dbg(&m1) != dbg(&m4) {
                        s.violation(format!("{}/{f:?}/restored-merges-differently", T::NAME), format!("{:?} {:?} {:?} {:?}", m1, m2, m3, m4), case());
                    }
                }
            }
        }
    }
}

fn run_type<T: Acc + Serialize + DeserializeOwned + PartialEq>(tier: Tier, cheap: bool, s: &mut Sink, totals: &mut (u64, u64), notes: &mut Vec<Value>) {
    let prm = Params { max_regs: 2, max_obs: 6, depth: if cheap { tier.pick(5, 10) } else { tier.pick(3, 6) }, max_states: 5_000_000, chunk_alpha: CHUNK_ALPHA };
    let st = search_with::<T>(&prm, &|p, sink| rt_check::<T>(p, sink), s);
    totals.0 += st.states;
    totals.1 += st.transitions;
    notes.push(json!({"type":T::NAME,"states":st.states,"transitions":st.transitions,"depth_completed":st.max_depth,"capped":st.capped}));
    if st.capped {
        s.count("capped-searches", 1);
    }
}

/// plain values: every Confidence over 12 levels x 3 kinds, Intervals over chains
fn value_checks(s: &mut Sink) {
    fn one<T: Serialize + DeserializeOwned + PartialEq + Debug>(name: &str, t: &T, nonfinite: bool, s: &mut Sink) {
        for f in FMTS {
            s.evals += 1;
            s.calls += 2;
            let case = json!({"check":"value","what":name,"value":format!("{t:?}"),"format":format!("{f:?}")});
            match round_trip(f, t, nonfinite) {
                Ok(None) => s.skipped += 1,
                Err(e) => s.violation(format!("{name}/{f:?}/round-trip-fails"), format!("{t:?}: {e}"), case),
                Ok(Some(b)) => {
                    s.outcome(&(name, format!("{f:?}")));
                    if dbg(&b) != dbg(t) || (!nonfinite && b != *t) {
                        s.violation(format!("{name}/{f:?}/restored-differs"), format!("{t:?} restored as {b:?}"), case);
                    }
                }
            }
        }
    }
    for l in [5e-324, 0.001, 0.25, 0.5, 0.5000000000000001, 0.9, 0.95, 0.975, 0.99, 0.9999, 0.1, 1.0 - 2f64.powi(-53)] {
        for c in [Confidence::TwoSided(l), Confidence::UpperOneSided(l), Confidence::LowerOneSided(l)] {
            one("Confidence", &c, false, s);
        }
    }
    let fv = [f64::NEG_INFINITY, -2.5, -0.0, 0.0, 5e-324, 0.1, 1.0, 1e300, f64::INFINITY];
    for (i, &a) in fv.iter().enumerate() {
        for &b in &fv[i..] {
            one("Interval<f64>", &Interval::TwoSided(a, b), !a.is_finite() || !b.is_finite(), s);
        }
        one("Interval<f64>", &Interval::UpperOneSided(a), !a.is_finite(), s);
        one("Interval<f64>", &Interval::LowerOneSided(a), !a.is_finite(), s);
    }
    // values of the type that the fallible constructors would refuse but that the public
    // variants (and relative_to with a negative reference) can produce: a round trip is
    // claimed for every value reachable by the API, so these too must come back unchanged
    one("Interval<f64>", &Interval::TwoSided(3.0, 1.0), false, s);
    one("Interval<f64>", &Interval::TwoSided(-2.0, -2.5), false, s);
    one("Interval<i32>", &Interval::TwoSided(5, -5), false, s);
    one("Interval<String>", &Interval::TwoSided("b".to_string(), "a".to_string()), false, s);
    let iv = [i32::MIN, -7, 0, 3, i32::MAX];
    for (i, &a) in iv.iter().enumerate() {
        for &b in &iv[i..] {
            one("Interval<i32>", &Interval::TwoSided(a, b), false, s);
        }
        one("Interval<i32>", &Interval::UpperOneSided(a), false, s);
        one("Interval<i32>", &Interval::LowerOneSided(a), false, s);
    }
    let sv = ["", "A", "a b", "\u{e9}\"\\", "\u{4e2d}\n"];
    for (i, a) in sv.iter().enumerate() {
        for b in &sv[i..] {
            one("Interval<String>", &Interval::TwoSided(a.to_string(), b.to_string()), false, s);
        }
        one("Interval<String>", &Interval::UpperOneSided(a.to_string()), false, s);
        one("Interval<String>", &Interval::LowerOneSided(a.to_string()), false, s);
    }
    // registers holding data of extreme (legitimate) magnitudes: squares that underflow or
    // come close to overflow must not prevent a state from being restored
    fn regs<T: Acc + Serialize + DeserializeOwned + PartialEq>(scales: &[i32], s: &mut Sink) {
        use vcheck::models::Obs;
        for &e in scales {
            let k = 2f64.powi(e);
            let data: Vec<Obs> = T::alphabet()
                .iter()
                .cycle()
                .take(5)
                .map(|o| match *o {
                    Obs::V(x) => Obs::V(x.abs().max(0.25) * k),
                    Obs::P(x, y) => Obs::P(x * k, y * k),
                    Obs::A(x) => Obs::A(x * k),
                    Obs::B(x) => Obs::B(x * k),
                    o => o,
                })
                .collect();
            let r = T::from_iter(&data);
            let d0 = format!("{r:?}");
            let nonfinite = d0.contains("inf") || d0.contains("NaN");
            for f in FMTS {
                s.evals += 1;
                s.calls += 2;
                let case = json!({"check":"value","what":T::NAME,"value":d0,"format":format!("{f:?}"),"scale_exponent":e});
                match round_trip(f, &r, nonfinite) {
                    Ok(None) => s.skipped += 1,
                    Err(m) => s.violation(format!("{}/{f:?}/round-trip-fails-at-extreme-magnitude", T::NAME), format!("data x 2^{e}: {d0}: {m}"), case),
                    Ok(Some(b)) => {
                        s.outcome(&(T::NAME, format!("{f:?}"), "magnitude", e.signum()));
                        if format!("{b:?}") != d0 {
                            s.violation(format!("{}/{f:?}/restored-state-differs", T::NAME), format!("{d0} restored as {b:?}"), case);
                        }
                    }
                }
            }
        }
    }
    let s64 = [-1000, -600, -200, 0, 200, 500];
    let s32 = [-120, -70, -30, 0, 30, 60];
    regs::<Arithmetic<f64>>(&s64, s);
    regs::<Geometric<f64>>(&s64, s);
    regs::<Harmonic<f64>>(&s64, s);
    regs::<Paired<f64>>(&s64, s);
    regs::<Unpaired<f64>>(&s64, s);
    regs::<Arithmetic<f32>>(&s32, s);
    regs::<Geometric<f32>>(&s32, s);
    regs::<Harmonic<f32>>(&s32, s);
    regs::<Paired<f32>>(&s32, s);
    regs::<Unpaired<f32>>(&s32, s);
    // counters of the proportion state at and beyond the 32-bit boundary (usize is 64 bits
    // here; values up to i64::MAX so that TOML's integer type can hold them)
    let big = [0usize, 1, 57, u32::MAX as usize - 1, u32::MAX as usize, 1 << 32, (1 << 32) + 1, 5_000_000_000, (1 << 53) + 1, i64::MAX as usize];
    for &n in &big {
        for &k in &big {
            if k <= n {
                let st = stats_ci::proportion::Stats::new(n, k);
                one("proportion::Stats", &st, false, s);
            }
        }
    }
    let us = [0usize, 1, 57, 1 << 40];
    for &a in &us {
        one("Interval<usize>", &Interval::TwoSided(a, a + 1), false, s);
    }
}

fn replay_case(case: &Value, s: &mut Sink) {
    if case["check"] == "value" {
        value_checks(s);
        return;
    }
    if case["check"] == "feature-set" {
        eprintln!("re-run ./run.sh C20 quick: the replay of a feature-set build failure is the cargo command line in the case");
        println!("{}", case["cmd"]);
        return;
    }
    let hist: Vec<Act> = serde_json::from_value(case["history"].clone()).unwrap();
    let mr = case["max_regs"].as_u64().unwrap_or(2) as usize;
    macro_rules! go {
        ($t:ty) => {
            replay_with::<$t>(&hist, mr, &|p, sink| rt_check::<$t>(p, sink), s)
        };
    }
    match case["type"].as_str().unwrap_or("") {
        "Arithmetic<f64>" => go!(Arithmetic<f64>),
        "Arithmetic<f32>" => go!(Arithmetic<f32>),
        "Geometric<f64>" => go!(Geometric<f64>),
        "Geometric<f32>" => go!(Geometric<f32>),
        "Harmonic<f64>" => go!(Harmonic<f64>),
        "Harmonic<f32>" => go!(Harmonic<f32>),
        "Paired<f64>" => go!(Paired<f64>),
        "Paired<f32>" => go!(Paired<f32>),
        "Unpaired<f64>" => go!(Unpaired<f64>),
        "Unpaired<f32>" => go!(Unpaired<f32>),
        "proportion::Stats" => go!(proportion::Stats),
        other => eprintln!("unknown type {other}"),
    }
}

fn main() {
    let (cmd, tier) = mc::parse_args();
    mc::quiet_panics();
    if let Cmd::Replay(p) = cmd {
        std::process::exit(mc::report::replay_main(P, &p, replay_case));
    }
    let mut rep = Report::new(P, tier);
    let mut s = Sink::new();
    // ---- configurations: results handed over by checks/c20.sh ---------------------------
    let cfg_path = mc::report::verif_root().join("evidence").join("C20.features.json");
    let cfg: Value = std::fs::read_to_string(&cfg_path).ok().and_then(|t| serde_json::from_str(&t).ok()).unwrap_or(json!([]));
    let sets = cfg.as_array().cloned().unwrap_or_default();
    rep.require(sets.len() == 5, "the five advertised feature sets were not all built by checks/c20.sh");
    for set in &sets {
        s.evals += 1;
        s.calls += 1;
        s.outcome(&("feature-set", set["name"].as_str().unwrap_or(""), set["ok"].as_bool()));
        if set["ok"] != json!(true) {
            s.violation(
                format!("feature-set/{}/build-failure", set["name"].as_str().unwrap_or("?")),
                format!("`{}` failed: {}", set["cmd"].as_str().unwrap_or(""), set["first_error"].as_str().unwrap_or("")),
                json!({"check":"feature-set","name":set["name"],"cmd":set["cmd"]}),
            );
        }
    }
    rep.note("feature_sets", json!(sets));
    // ---- round trips ---------------------------------------------------------------------
    let mut totals = (0, 0);
    let mut notes = vec![];
    run_type::<Arithmetic<f64>>(tier, false, &mut s, &mut totals, &mut notes);
    run_type::<Arithmetic<f32>>(tier, false, &mut s, &mut totals, &mut notes);
    run_type::<Geometric<f64>>(tier, false, &mut s, &mut totals, &mut notes);
    run_type::<Harmonic<f64>>(tier, false, &mut s, &mut totals, &mut notes);
    run_type::<Paired<f64>>(tier, false, &mut s, &mut totals, &mut notes);
    run_type::<Unpaired<f64>>(tier, false, &mut s, &mut totals, &mut notes);
    run_type::<Geometric<f32>>(tier, false, &mut s, &mut totals, &mut notes);
    run_type::<Harmonic<f32>>(tier, false, &mut s, &mut totals, &mut notes);
    run_type::<Paired<f32>>(tier, false, &mut s, &mut totals, &mut notes);
    run_type::<Unpaired<f32>>(tier, false, &mut s, &mut totals, &mut notes);
    run_type::<proportion::Stats>(tier, true, &mut s, &mut totals, &mut notes);
    value_checks(&mut s);
    rep.states = Some(totals.0 + sets.len() as u64);
    rep.exhaustive = s.counter("capped-searches") == 0;
    rep.note("searches", json!(notes));
    s.sample(json!({"check":"feature-set","sets":["default","std","std,approx","std,serde","all features"],"how":"cargo build --lib --offline of /repo's working tree for each"}));
    s.sample(json!({"check":"roundtrip","type":"Arithmetic<f32>","history":["FromIter([0.1, 1048576.0])","Append(0, -2.5)"],"formats":["CBOR","JSON(float_roundtrip)","TOML","positional"],"invariant":"restored == original, identical Debug (compensation terms included), identical statistics, identical continuations (append of every alphabet value, self-merge, cross-merge)"}));
    s.sample(json!({"check":"value","what":"Interval<f64>","value":"TwoSided(-0.0, 5e-324)","formats":["CBOR","JSON","TOML","positional"]}));
    rep.rule = format!("configurations: the five advertised feature sets built from the working tree; round trip: BFS over pools of <=2 real registers to depth {} ({} for proportion::Stats) for Arithmetic/Geometric/Harmonic/Paired/Unpaired x f64,f32 and proportion::Stats, with every register of EVERY reachable state serialized and restored through CBOR, JSON, TOML and a positional (bincode-style, non-self-describing) format and compared (==, Debug, all observers, one-step continuations); plus every Confidence over 12 levels x 3 kinds and Interval<f64|i32|String|usize> over value chains; distinct by (type, format, non-zero compensation)", tier.pick(3, 6), tier.pick(5, 10));
    rep.assume("JSON cannot represent non-finite floats: such values are round-tripped through CBOR, TOML and the positional format only (counted as skipped for JSON)");
    rep.assume("serde_json (float_roundtrip), toml 0.8 and ciborium are trusted to round-trip the primitives they are given");
    // (only meaningful while the Debug rendering exposes the compensation term by that name)
    rep.require(s.counter("states-exposing-a-compensation-term") == 0 || s.counter("states-with-nonzero-compensation") > 0, "no state with a non-zero compensation term was round-tripped");
    rep.require(s.distinct() >= 30, "fewer than 30 distinct classes: vacuous");
    std::process::exit(rep.finish(s));
}
