//! A minimal *positional* (non-self-describing) serde data format, in the style of bincode /
//! postcard: a struct is written as its fields one after the other, without names and without
//! a field count, and is read back as exactly `fields.len()` values; an enum variant is its
//! index followed by its payload. No crate with such a format is in the offline cargo cache,
//! so the few dozen lines needed are written out here. It exists because a value that does
//! not always write all of its fields (`skip_serializing_if`, `flatten`, `untagged`, …)
//! round-trips through the self-describing formats (JSON, TOML, CBOR) and is corrupted by a
//! positional one.

use serde::de::{self, DeserializeOwned, DeserializeSeed, IntoDeserializer, Visitor};
use serde::ser::{self, Serialize};

#[derive(Debug, Clone, PartialEq)]
pub enum Tok {
    Bool(bool),
    I(i128),
    U(u128),
    F32(u32),
    F64(u64),
    Str(String),
    Unit,
    None,
    Some,
    Variant(u32),
    Len(usize),
}

#[derive(Debug)]
pub struct Error(pub String);
impl std::fmt::Display for Error {
    fn fmt(&self, f: &mut std::fmt::Formatter<'_>) -> std::fmt::Result {
        f.write_str(&self.0)
    }
}
impl std::error::Error for Error {}
impl ser::Error for Error {
    fn custom<T: std::fmt::Display>(m: T) -> Self {
        Error(m.to_string())
    }
}
impl de::Error for Error {
    fn custom<T: std::fmt::Display>(m: T) -> Self {
        Error(m.to_string())
    }
}
type R<T> = Result<T, Error>;

pub fn to_tokens<T: Serialize>(v: &T) -> R<Vec<Tok>> {
    let mut w = W(vec![]);
    v.serialize(&mut w)?;
    Ok(w.0)
}

pub fn from_tokens<T: DeserializeOwned>(t: &[Tok]) -> R<T> {
    let mut r = Rd { t, pos: 0 };
    let v = T::deserialize(&mut r)?;
    if r.pos != t.len() {
        return Err(Error(format!("trailing data: {} of {} tokens consumed", r.pos, t.len())));
    }
    Ok(v)
}

pub struct W(Vec<Tok>);

macro_rules! ser_num {
    ($($m:ident($t:ty) => $k:ident as $w:ty;)*) => {$(fn $m(self, v: $t) -> R<()> { self.0.push(Tok::$k(v as $w)); Ok(()) })*};
}

impl<'a> ser::Serializer for &'a mut W {
    type Ok = ();
    type Error = Error;
    type SerializeSeq = Self;
    type SerializeTuple = Self;
    type SerializeTupleStruct = Self;
    type SerializeTupleVariant = Self;
    type SerializeMap = Self;
    type SerializeStruct = Self;
    type SerializeStructVariant = Self;
    ser_num! {
        serialize_i8(i8) => I as i128; serialize_i16(i16) => I as i128; serialize_i32(i32) => I as i128; serialize_i64(i64) => I as i128; serialize_i128(i128) => I as i128;
        serialize_u8(u8) => U as u128; serialize_u16(u16) => U as u128; serialize_u32(u32) => U as u128; serialize_u64(u64) => U as u128; serialize_u128(u128) => U as u128;
    }
    fn serialize_bool(self, v: bool) -> R<()> {
        self.0.push(Tok::Bool(v));
        Ok(())
    }
    fn serialize_f32(self, v: f32) -> R<()> {
        self.0.push(Tok::F32(v.to_bits()));
        Ok(())
    }
    fn serialize_f64(self, v: f64) -> R<()> {
        self.0.push(Tok::F64(v.to_bits()));
        Ok(())
    }
    fn serialize_char(self, v: char) -> R<()> {
        self.0.push(Tok::Str(v.to_string()));
        Ok(())
    }
    fn serialize_str(self, v: &str) -> R<()> {
        self.0.push(Tok::Str(v.to_string()));
        Ok(())
    }
    fn serialize_bytes(self, v: &[u8]) -> R<()> {
        self.0.push(Tok::Len(v.len()));
        for b in v {
            self.0.push(Tok::U(*b as u128));
        }
        Ok(())
    }
    fn serialize_none(self) -> R<()> {
        self.0.push(Tok::None);
        Ok(())
    }
    fn serialize_some<T: ?Sized + Serialize>(self, v: &T) -> R<()> {
        self.0.push(Tok::Some);
        v.serialize(self)
    }
    fn serialize_unit(self) -> R<()> {
        self.0.push(Tok::Unit);
        Ok(())
    }
    fn serialize_unit_struct(self, _: &'static str) -> R<()> {
        self.0.push(Tok::Unit);
        Ok(())
    }
    fn serialize_unit_variant(self, _: &'static str, i: u32, _: &'static str) -> R<()> {
        self.0.push(Tok::Variant(i));
        Ok(())
    }
    fn serialize_newtype_struct<T: ?Sized + Serialize>(self, _: &'static str, v: &T) -> R<()> {
        v.serialize(self)
    }
    fn serialize_newtype_variant<T: ?Sized + Serialize>(self, _: &'static str, i: u32, _: &'static str, v: &T) -> R<()> {
        self.0.push(Tok::Variant(i));
        v.serialize(self)
    }
    fn serialize_seq(self, len: Option<usize>) -> R<Self> {
        let n = len.ok_or_else(|| Error("sequence of unknown length".into()))?;
        self.0.push(Tok::Len(n));
        Ok(self)
    }
    fn serialize_tuple(self, _: usize) -> R<Self> {
        Ok(self)
    }
    fn serialize_tuple_struct(self, _: &'static str, _: usize) -> R<Self> {
        Ok(self)
    }
    fn serialize_tuple_variant(self, _: &'static str, i: u32, _: &'static str, _: usize) -> R<Self> {
        self.0.push(Tok::Variant(i));
        Ok(self)
    }
    fn serialize_map(self, len: Option<usize>) -> R<Self> {
        let n = len.ok_or_else(|| Error("map of unknown length".into()))?;
        self.0.push(Tok::Len(n));
        Ok(self)
    }
    fn serialize_struct(self, _: &'static str, _: usize) -> R<Self> {
        Ok(self)
    }
    fn serialize_struct_variant(self, _: &'static str, i: u32, _: &'static str, _: usize) -> R<Self> {
        self.0.push(Tok::Variant(i));
        Ok(self)
    }
    fn is_human_readable(&self) -> bool {
        false
    }
}

macro_rules! ser_compound {
    ($($tr:ident { $($m:ident),* })*) => {$(
        impl<'a> ser::$tr for &'a mut W {
            type Ok = ();
            type Error = Error;
            $(fn $m<T: ?Sized + Serialize>(&mut self, v: &T) -> R<()> { v.serialize(&mut **self) })*
            fn end(self) -> R<()> { Ok(()) }
        }
    )*};
}
ser_compound! { SerializeSeq { serialize_element } SerializeTuple { serialize_element } SerializeTupleStruct { serialize_field } SerializeTupleVariant { serialize_field } }
impl<'a> ser::SerializeMap for &'a mut W {
    type Ok = ();
    type Error = Error;
    fn serialize_key<T: ?Sized + Serialize>(&mut self, k: &T) -> R<()> {
        k.serialize(&mut **self)
    }
    fn serialize_value<T: ?Sized + Serialize>(&mut self, v: &T) -> R<()> {
        v.serialize(&mut **self)
    }
    fn end(self) -> R<()> {
        Ok(())
    }
}
impl<'a> ser::SerializeStruct for &'a mut W {
    type Ok = ();
    type Error = Error;
    fn serialize_field<T: ?Sized + Serialize>(&mut self, _: &'static str, v: &T) -> R<()> {
        v.serialize(&mut **self)
    }
    // a skipped field writes nothing: exactly what a positional format does
    fn end(self) -> R<()> {
        Ok(())
    }
}
impl<'a> ser::SerializeStructVariant for &'a mut W {
    type Ok = ();
    type Error = Error;
    fn serialize_field<T: ?Sized + Serialize>(&mut self, _: &'static str, v: &T) -> R<()> {
        v.serialize(&mut **self)
    }
    fn end(self) -> R<()> {
        Ok(())
    }
}

pub struct Rd<'t> {
    t: &'t [Tok],
    pos: usize,
}
impl<'t> Rd<'t> {
    fn next(&mut self) -> R<&'t Tok> {
        let t = self.t.get(self.pos).ok_or_else(|| Error("unexpected end of input".into()))?;
        self.pos += 1;
        Ok(t)
    }
}

macro_rules! de_int {
    ($($m:ident => $v:ident($t:ty);)*) => {$(
        fn $m<V: Visitor<'de>>(self, v: V) -> R<V::Value> {
            match self.next()? {
                Tok::I(x) => v.$v(<$t>::try_from(*x).map_err(|_| Error(format!("{x} out of range")))?),
                Tok::U(x) => v.$v(<$t>::try_from(*x).map_err(|_| Error(format!("{x} out of range")))?),
                t => Err(Error(format!("expected an integer, found {t:?}"))),
            }
        }
    )*};
}

impl<'de, 'a, 't> de::Deserializer<'de> for &'a mut Rd<'t> {
    type Error = Error;
    fn deserialize_any<V: Visitor<'de>>(self, _: V) -> R<V::Value> {
        Err(Error("the positional format is not self-describing (deserialize_any)".into()))
    }
    de_int! {
        deserialize_i8 => visit_i8(i8); deserialize_i16 => visit_i16(i16); deserialize_i32 => visit_i32(i32); deserialize_i64 => visit_i64(i64); deserialize_i128 => visit_i128(i128);
        deserialize_u8 => visit_u8(u8); deserialize_u16 => visit_u16(u16); deserialize_u32 => visit_u32(u32); deserialize_u64 => visit_u64(u64); deserialize_u128 => visit_u128(u128);
    }
    fn deserialize_bool<V: Visitor<'de>>(self, v: V) -> R<V::Value> {
        match self.next()? {
            Tok::Bool(b) => v.visit_bool(*b),
            t => Err(Error(format!("expected a bool, found {t:?}"))),
        }
    }
    fn deserialize_f32<V: Visitor<'de>>(self, v: V) -> R<V::Value> {
        match self.next()? {
            Tok::F32(b) => v.visit_f32(f32::from_bits(*b)),
            t => Err(Error(format!("expected an f32, found {t:?}"))),
        }
    }
    fn deserialize_f64<V: Visitor<'de>>(self, v: V) -> R<V::Value> {
        match self.next()? {
            Tok::F64(b) => v.visit_f64(f64::from_bits(*b)),
            t => Err(Error(format!("expected an f64, found {t:?}"))),
        }
    }
    fn deserialize_char<V: Visitor<'de>>(self, v: V) -> R<V::Value> {
        self.deserialize_str(v)
    }
    fn deserialize_str<V: Visitor<'de>>(self, v: V) -> R<V::Value> {
        match self.next()? {
            Tok::Str(s) => v.visit_str(s),
            t => Err(Error(format!("expected a string, found {t:?}"))),
        }
    }
    fn deserialize_string<V: Visitor<'de>>(self, v: V) -> R<V::Value> {
        self.deserialize_str(v)
    }
    fn deserialize_bytes<V: Visitor<'de>>(self, v: V) -> R<V::Value> {
        self.deserialize_byte_buf(v)
    }
    fn deserialize_byte_buf<V: Visitor<'de>>(self, v: V) -> R<V::Value> {
        let Tok::Len(n) = self.next()? else { return Err(Error("expected a length".into())) };
        let mut b = vec![];
        for _ in 0..*n {
            match self.next()? {
                Tok::U(x) => b.push(*x as u8),
                t => return Err(Error(format!("expected a byte, found {t:?}"))),
            }
        }
        v.visit_byte_buf(b)
    }
    fn deserialize_option<V: Visitor<'de>>(self, v: V) -> R<V::Value> {
        match self.next()? {
            Tok::None => v.visit_none(),
            Tok::Some => v.visit_some(self),
            t => Err(Error(format!("expected an option marker, found {t:?}"))),
        }
    }
    fn deserialize_unit<V: Visitor<'de>>(self, v: V) -> R<V::Value> {
        match self.next()? {
            Tok::Unit => v.visit_unit(),
            t => Err(Error(format!("expected unit, found {t:?}"))),
        }
    }
    fn deserialize_unit_struct<V: Visitor<'de>>(self, _: &'static str, v: V) -> R<V::Value> {
        self.deserialize_unit(v)
    }
    fn deserialize_newtype_struct<V: Visitor<'de>>(self, _: &'static str, v: V) -> R<V::Value> {
        v.visit_newtype_struct(self)
    }
    fn deserialize_seq<V: Visitor<'de>>(self, v: V) -> R<V::Value> {
        let Tok::Len(n) = self.next()? else { return Err(Error("expected a length".into())) };
        v.visit_seq(Seq { r: self, left: *n })
    }
    fn deserialize_tuple<V: Visitor<'de>>(self, n: usize, v: V) -> R<V::Value> {
        v.visit_seq(Seq { r: self, left: n })
    }
    fn deserialize_tuple_struct<V: Visitor<'de>>(self, _: &'static str, n: usize, v: V) -> R<V::Value> {
        v.visit_seq(Seq { r: self, left: n })
    }
    fn deserialize_map<V: Visitor<'de>>(self, v: V) -> R<V::Value> {
        let Tok::Len(n) = self.next()? else { return Err(Error("expected a length".into())) };
        v.visit_map(Seq { r: self, left: *n })
    }
    fn deserialize_struct<V: Visitor<'de>>(self, _: &'static str, fields: &'static [&'static str], v: V) -> R<V::Value> {
        v.visit_seq(Seq { r: self, left: fields.len() })
    }
    fn deserialize_enum<V: Visitor<'de>>(self, _: &'static str, _: &'static [&'static str], v: V) -> R<V::Value> {
        v.visit_enum(En { r: self })
    }
    fn deserialize_identifier<V: Visitor<'de>>(self, _: V) -> R<V::Value> {
        Err(Error("identifiers are not written by a positional format".into()))
    }
    fn deserialize_ignored_any<V: Visitor<'de>>(self, _: V) -> R<V::Value> {
        Err(Error("cannot skip a value in a positional format".into()))
    }
    fn is_human_readable(&self) -> bool {
        false
    }
}

struct Seq<'a, 't> {
    r: &'a mut Rd<'t>,
    left: usize,
}
impl<'de, 'a, 't> de::SeqAccess<'de> for Seq<'a, 't> {
    type Error = Error;
    fn next_element_seed<S: DeserializeSeed<'de>>(&mut self, seed: S) -> R<Option<S::Value>> {
        if self.left == 0 {
            return Ok(None);
        }
        self.left -= 1;
        seed.deserialize(&mut *self.r).map(Some)
    }
    fn size_hint(&self) -> Option<usize> {
        Some(self.left)
    }
}
impl<'de, 'a, 't> de::MapAccess<'de> for Seq<'a, 't> {
    type Error = Error;
    fn next_key_seed<S: DeserializeSeed<'de>>(&mut self, seed: S) -> R<Option<S::Value>> {
        if self.left == 0 {
            return Ok(None);
        }
        self.left -= 1;
        seed.deserialize(&mut *self.r).map(Some)
    }
    fn next_value_seed<S: DeserializeSeed<'de>>(&mut self, seed: S) -> R<S::Value> {
        seed.deserialize(&mut *self.r)
    }
}

struct En<'a, 't> {
    r: &'a mut Rd<'t>,
}
impl<'de, 'a, 't> de::EnumAccess<'de> for En<'a, 't> {
    type Error = Error;
    type Variant = Self;
    fn variant_seed<S: DeserializeSeed<'de>>(self, seed: S) -> R<(S::Value, Self)> {
        let Tok::Variant(i) = self.r.next()? else { return Err(Error("expected a variant index".into())) };
        let val = seed.deserialize(IntoDeserializer::<Error>::into_deserializer(*i))?;
        Ok((val, self))
    }
}
impl<'de, 'a, 't> de::VariantAccess<'de> for En<'a, 't> {
    type Error = Error;
    fn unit_variant(self) -> R<()> {
        Ok(())
    }
    fn newtype_variant_seed<S: DeserializeSeed<'de>>(self, seed: S) -> R<S::Value> {
        seed.deserialize(self.r)
    }
    fn tuple_variant<V: Visitor<'de>>(self, n: usize, v: V) -> R<V::Value> {
        v.visit_seq(Seq { r: self.r, left: n })
    }
    fn struct_variant<V: Visitor<'de>>(self, fields: &'static [&'static str], v: V) -> R<V::Value> {
        v.visit_seq(Seq { r: self.r, left: fields.len() })
    }
}
