//! C09 — second engine: the same pool model (real accumulator registers, real API calls as
//! transitions, reference multiset per register) explored by stateright's breadth-first
//! checker instead of the hand-rolled `mc::explore::Bfs`. Two things are decided:
//!  * the invariant of `vcheck::pool::check` (and the transition oracle of `pool::step`)
//!    holds in every state stateright reaches — a discovery is a VIOLATION with the action
//!    path as replay file;
//!  * both engines should find the same number of distinct states for the same bound; the
//!    counts of both are written to the evidence, a mismatch is recorded there and noted on
//!    stderr but is neither a verdict nor an exit status (see the end of `main`).
//! Writes evidence/C09.stateright.json (merged into C09's evidence by the c09 binary).

use mc::{json, Sink, Value};
use stateright::{Checker, Model, Property};
use stats_ci::mean::Arithmetic;
use stats_ci::{proportion, quantile};
use std::hash::{Hash, Hasher};
use vcheck::models::{Acc, Obs};
use vcheck::pool::{self, Act, Params, Pool, CHUNK_ALPHA};

struct PoolModel<T: Acc> {
    prm: Params,
    chunk_tab: Vec<Vec<Obs>>,
    _t: std::marker::PhantomData<T>,
}

#[derive(Clone)]
struct St<T: Acc> {
    key: Vec<(String, String)>,
    pool: Pool<T>,
    /// a transition-level violation was recorded on the way into this state
    bad_step: bool,
}
impl<T: Acc> Hash for St<T> {
    fn hash<H: Hasher>(&self, h: &mut H) {
        self.key.hash(h);
        self.bad_step.hash(h);
    }
}
impl<T: Acc> PartialEq for St<T> {
    fn eq(&self, o: &Self) -> bool {
        self.key == o.key && self.bad_step == o.bad_step
    }
}
impl<T: Acc> std::fmt::Debug for St<T> {
    fn fmt(&self, f: &mut std::fmt::Formatter<'_>) -> std::fmt::Result {
        write!(f, "{:?}", self.key)
    }
}

impl<T: Acc + Send + Sync + 'static> Model for PoolModel<T> {
    type State = St<T>;
    type Action = Act;
    fn init_states(&self) -> Vec<St<T>> {
        let pool = Pool::<T> { regs: vec![], hist: vec![], max_regs: self.prm.max_regs };
        vec![St { key: pool::key(&pool), pool, bad_step: false }]
    }
    fn actions(&self, s: &St<T>, out: &mut Vec<Act>) {
        if s.pool.hist.len() < self.prm.depth {
            out.extend(pool::actions::<T>(&s.pool, &self.prm, self.chunk_tab.len()));
        }
    }
    fn next_state(&self, s: &St<T>, a: Act) -> Option<St<T>> {
        let mut sink = Sink::new();
        let n = pool::step::<T>(&s.pool, &a, &self.prm, &self.chunk_tab, &mut sink)?;
        Some(St { key: pool::key(&n), pool: n, bad_step: sink.n_violation_classes() > 0 })
    }
    fn properties(&self) -> Vec<Property<Self>> {
        vec![Property::<Self>::always("accumulated state equals the batch result of its multiset", |_, s: &St<T>| {
            let mut sink = Sink::new();
            pool::check::<T>(&s.pool, &mut sink);
            sink.n_violation_classes() == 0 && !s.bad_step
        })]
    }
}

fn run_type<T: Acc + Send + Sync + 'static>(depth: usize, max_regs: usize, out: &mut Vec<Value>, viol: &mut Vec<Value>, mism: &mut Vec<String>) {
    let mk = || Params { max_regs, max_obs: 6, depth, max_states: u64::MAX, chunk_alpha: CHUNK_ALPHA };
    // engine 1: the hand-rolled explorer
    let mut s1 = Sink::new();
    let st = pool::search::<T>(&mk(), &mut s1);
    // engine 2: stateright, single-threaded breadth-first (exact level order, so that the
    // depth bound prunes the same states)
    let model = PoolModel::<T> { prm: mk(), chunk_tab: pool::chunks::<T>(CHUNK_ALPHA), _t: std::marker::PhantomData };
    let t0 = std::time::Instant::now();
    let checker = model.checker().threads(1).spawn_bfs().join();
    let unique = checker.unique_state_count() as u64;
    let disc = checker.discoveries();
    for (name, path) in disc.iter() {
        let acts: Vec<Act> = path.clone().into_actions();
        viol.push(json!({"type": T::NAME, "property": name, "history": acts, "max_regs": max_regs}));
    }
    // a discovery stops stateright early: counts are comparable only for a clean run
    if disc.is_empty() && unique != st.states {
        mism.push(format!("{}: hand-rolled BFS {} states, stateright {} states (depth {depth}, {max_regs} registers)", T::NAME, st.states, unique));
    }
    out.push(json!({"type": T::NAME, "depth": depth, "max_regs": max_regs, "states_hand_rolled_bfs": st.states, "transitions_hand_rolled_bfs": st.transitions,
        "unique_states_stateright": unique, "generated_states_stateright": checker.state_count(), "max_depth_stateright": checker.max_depth(),
        "discoveries": disc.len(), "hand_rolled_violation_classes": s1.n_violation_classes(), "stateright_seconds": t0.elapsed().as_secs_f64()}));
}

fn main() {
    let thorough = std::env::args().any(|a| a == "thorough");
    let root = mc::report::verif_root();
    let (mut out, mut viol, mut mism) = (vec![], vec![], vec![]);
    let d = if thorough { 1 } else { 0 };
    run_type::<proportion::Stats>(5 + d, 3, &mut out, &mut viol, &mut mism);
    run_type::<quantile::Stats>(6 + 2 * d, 3, &mut out, &mut viol, &mut mism);
    run_type::<Arithmetic<f64>>(4 + d, 2, &mut out, &mut viol, &mut mism);
    run_type::<Arithmetic<f32>>(3 + d, 3, &mut out, &mut viol, &mut mism);
    run_type::<stats_ci::mean::Geometric<f64>>(3 + d, 2, &mut out, &mut viol, &mut mism);
    run_type::<stats_ci::mean::Harmonic<f64>>(3 + d, 2, &mut out, &mut viol, &mut mism);
    run_type::<stats_ci::comparison::Paired<f64>>(3 + d, 2, &mut out, &mut viol, &mut mism);
    run_type::<stats_ci::comparison::Unpaired<f64>>(3 + d, 2, &mut out, &mut viol, &mut mism);
    let _ = std::fs::create_dir_all(root.join("evidence"));
    let _ = std::fs::create_dir_all(root.join("replays"));
    // stale replay files of this engine
    if let Ok(rd) = std::fs::read_dir(root.join("replays")) {
        for e in rd.flatten() {
            if e.file_name().to_string_lossy().starts_with("C09sr-") {
                let _ = std::fs::remove_file(e.path());
            }
        }
    }
    let ev = json!({"engine": "stateright 0.31.0, breadth-first, 1 thread", "searches": out, "count_mismatches": mism, "discoveries": viol});
    if let Err(e) = std::fs::write(root.join("evidence").join("C09.stateright.json"), serde_json::to_string_pretty(&ev).unwrap()) {
        eprintln!("MACHINERY-ERROR: cannot write C09.stateright.json: {e}");
        std::process::exit(3);
    }
    for o in &out {
        println!("C09 stateright: {} depth {}: {} states (hand-rolled BFS {}), {} discoveries", o["type"].as_str().unwrap(), o["depth"], o["unique_states_stateright"], o["states_hand_rolled_bfs"], o["discoveries"]);
    }
    let mut rc = 0;
    for (i, v) in viol.iter().enumerate() {
        let path = root.join("replays").join(format!("C09sr-{i:02}.json"));
        let body = json!({"property": "C09", "signature": format!("stateright/{}/invariant-violated", v["type"].as_str().unwrap_or("?")), "detail": "stateright reached a state whose real register disagrees with the batch result of its multiset (or a transition oracle failed on the way)",
            "case": {"check": "history", "type": v["type"], "max_regs": v["max_regs"], "history": v["history"]}});
        let _ = std::fs::write(&path, serde_json::to_string_pretty(&body).unwrap());
        println!("VIOLATION property=C09 replay={}", path.display());
        rc = 1;
    }
    // Equal counts are evidence that the two explorers agree; unequal counts are *recorded*
    // (evidence field count_mismatches, a NOTE on stderr) but are not an exit status: the
    // dedup key contains the register's Debug rendering, and a crate whose Debug is not
    // injective (a legitimate implementation choice, refactoring variant V5) merges states
    // with different futures, so that the count depends on which representative an engine
    // happens to keep first. The verdict of this engine is its invariant, not its count.
    for m in &mism {
        eprintln!("NOTE: state counts of the two explorers differ (expected only when the register's Debug rendering is not injective): {m}");
    }
    std::process::exit(rc);
}
