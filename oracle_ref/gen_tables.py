#!/usr/bin/env python3-vt
"""Generate the committed reference tables used by the oracle self-test.
Run once at design/setup time with the tooling venv (scipy + mpmath); the checks
themselves never call Python.  Values are computed with mpmath at 50 digits."""
import json, sys
import mpmath as mp
from scipy import stats
mp.mp.dps = 50
LG=[0.001,0.01,0.05,0.1,0.2,0.25,0.3,0.4,0.5,0.6,0.7,0.75,0.8,0.85,0.875,0.9,0.95,0.96875,0.975,0.99,0.995,0.999,0.9999]
def tcdf(t,nu):
    t=mp.mpf(t); nu=mp.mpf(nu)
    y=t*t/(nu+t*t); x=nu/(nu+t*t)
    half=mp.betainc(mp.mpf(1)/2, nu/2, 0, y, regularized=True)/2
    tail=mp.betainc(nu/2, mp.mpf(1)/2, 0, x, regularized=True)/2   # computed directly: no cancellation
    if t>=0: return (mp.mpf(1)/2+half, tail)
    return (tail, mp.mpf(1)/2+half)
rows=[]
dofs=[1,1.5,2,2.7,3,4,5,7.3,10,17,30,59.5,100,300,1000,3000,1e4,3e4,99998,99999,99999.5,1e5,123456.7,3e5,1e6]
for nu in dofs:
    ps=set()
    for L in LG:
        ps.add(L); ps.add((1+L)/2)
    for p in sorted(ps):
        t=float(stats.t.ppf(p,nu))
        for tt in (t,-t,t*1.0001):
            c,s=tcdf(tt,nu)
            rows.append([tt,nu,float(c),float(s)])
    for tt in (0.0,1e-8,1e-3,0.5,1.0,2.0,5.0,10.0,40.0):
        c,s=tcdf(tt,nu); rows.append([tt,nu,float(c),float(s)])
json.dump({"what":"student-t cdf/sf, mpmath 50 digits: [t, nu, cdf, sf]","rows":rows},open("t_cdf.json","w"))
nrows=[]
for i in range(-90,91):
    z=i/10.0
    c=mp.ncdf(mp.mpf(z)); s=mp.ncdf(-mp.mpf(z))
    nrows.append([z,float(c),float(s)])
prow=[]
ps=set()
for L in LG:
    ps.add(L); ps.add((1+L)/2); ps.add(1-L)
for p in sorted(ps):
    # quantile of the *double* p
    z=mp.findroot(lambda x: mp.ncdf(x)-mp.mpf(p), float(stats.norm.ppf(p)))
    prow.append([p,float(z)])
json.dump({"what":"normal cdf/sf [z,cdf,sf]; ppf [p,z]","cdf":nrows,"ppf":prow},open("norm.json","w"))
trow=[]
for nu in [1,2,3,5,10,29,100,999,1e4,99999,2.5,7.7,53.21]:
    for p in sorted(ps):
        t0=float(stats.t.ppf(p,nu))
        f=lambda x: tcdf(x,nu)[0]-mp.mpf(p)
        try:
            t=mp.findroot(f,t0)
        except Exception as e:
            continue
        trow.append([p,nu,float(t)])
json.dump({"what":"t ppf [p,nu,t] (root of the 50-digit cdf at the double p)","rows":trow},open("t_ppf.json","w"))
brow=[]
for n in [4,15,40,100,400,1000,4000]:
    for p in [0.001,0.03,0.25,0.5,0.7,0.9,0.999]:
        pm=mp.mpf(p)
        for k in sorted(set([0,1,2,n//4,n//2,int(n*p),int(n*p)+1,n-1,n])):
            pmf=mp.binomial(n,k)*pm**k*(1-pm)**(n-k)
            brow.append([n,p,k,float(pmf)])
json.dump({"what":"binomial pmf [n,p,k,pmf] (p is the double)","rows":brow},open("binom.json","w"))
print(len(rows),len(nrows),len(prow),len(trow),len(brow))
