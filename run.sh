#!/bin/bash
# ./run.sh <Cnn> quick|thorough      run one property's check (rebuilds from /repo's working tree)
# ./run.sh replay <file>             re-execute one recorded violation without the explorer
# ./run.sh setup                     build everything once (offline)
# exit: 0 held / 1 violation (VIOLATION lines) / 2,3 machinery error (never a verdict)
set -u
ROOT="$(cd "$(dirname "${BASH_SOURCE[0]}")" && pwd)"
export VERIF_ROOT="$ROOT"
export CARGO_NET_OFFLINE=true
export CARGO_TARGET_DIR="${CARGO_TARGET_DIR:-$ROOT/harness/target}"
H="$ROOT/harness"
build() { # build <bin>
  local out
  out="$(cd "$H" && cargo build --release --offline --bin "$1" 2>&1)" || {
    echo "$out" | tail -40 >&2
    return 1
  }
}
case "${1:-}" in
  setup)
    (cd "$H" && cargo build --release --offline 2>&1 | tail -3) || exit 2
    # warm the per-feature-set build cache used by C20 (failures here are verdicts of C20, not of setup)
    for f in "" "--no-default-features --features std" "--no-default-features --features std,approx" "--no-default-features --features std,serde" "--all-features"; do
      CARGO_TARGET_DIR="$CARGO_TARGET_DIR/features" cargo build --lib --offline --manifest-path /repo/Cargo.toml $f >/dev/null 2>&1 || true
    done
    exit 0 ;;
  replay)
    f="${2:?replay needs a file}"
    id="$(python3 -c 'import json,sys;print(json.load(open(sys.argv[1]))["property"])' "$f")" || exit 2
    bin="$(echo "$id" | tr 'A-Z' 'a-z')"
    # the serde half of C02 is its own small binary: its whole enumeration is re-run (milliseconds)
    if grep -q '"deserialized-stats"' "$f"; then build c02s || exit 2; exec "$CARGO_TARGET_DIR/release/c02s" quick; fi
    build "$bin" || { echo "MACHINERY-ERROR: harness build failed for $bin" >&2; exit 2; }
    exec "$CARGO_TARGET_DIR/release/$bin" replay "$f" ;;
  C[0-9][0-9])
    id="$1"; tier="${2:-${VERIF_TIER:-quick}}"
    bin="$(echo "$id" | tr 'A-Z' 'a-z')"
    if [ -x "$ROOT/checks/$bin.sh" ]; then exec "$ROOT/checks/$bin.sh" "$tier"; fi
    build "$bin" || { echo "MACHINERY-ERROR: harness build failed for $bin (this is not a verdict on $id)" >&2; exit 2; }
    "$CARGO_TARGET_DIR/release/$bin" "$tier"; rc=$?
    case $rc in 0|1) exit $rc ;; *) echo "MACHINERY-ERROR: $bin exited with $rc" >&2; exit $rc ;; esac ;;
  *) echo "usage: $0 <Cnn> quick|thorough | replay <file> | setup" >&2; exit 2 ;;
esac
