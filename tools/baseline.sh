#!/bin/bash
# Run the repository's pinned suite (55 tests) on /repo (or $1) with hooks off (there are none).
# Prints "BASELINE passed=<n> failed=<m>"; exit 0 iff 55 passed and 0 failed.
dir="${1:-/repo}"
cd "$dir" || exit 2
out="$(CARGO_NET_OFFLINE=true cargo nextest run --workspace --no-fail-fast --offline 2>&1)"
sum="$(echo "$out" | grep -E 'Summary' | tail -1)"
p="$(echo "$sum" | sed -n 's/.* \([0-9]\+\) passed.*/\1/p')"
f="$(echo "$sum" | sed -n 's/.* \([0-9]\+\) failed.*/\1/p')"
echo "BASELINE passed=${p:-0} failed=${f:-0}  ($sum)"
if [ "${p:-0}" = "55" ] && [ "${f:-0}" = "0" ]; then exit 0; fi
echo "$out" | grep -E 'FAIL|error' | head -20
exit 1
