#!/usr/bin/env python3
"""tools/cost_table.py <quick.log> <thorough.log>: markdown cost table for DESIGN.md section 9
from the summary lines the checks print ('Cnn quick: states=... transitions=... wall=...s')."""
import re, sys
def parse(path, tier):
    out = {}
    for l in open(path):
        m = re.match(r'^(C\d\d) %s: states=(\d+) transitions=(\d+) evaluations=(\d+) distinct_outcomes=(\d+).*wall=([\d.]+)s' % tier, l)
        if m:
            out[m.group(1)] = (int(m.group(2)), int(m.group(3)), float(m.group(6)))
    return out
def h(n):
    for u, d in (('G', 1e9), ('M', 1e6), ('k', 1e3)):
        if n >= d:
            return ('%.3g %s' % (n / d, u))
    return str(n)
q, t = parse(sys.argv[1], 'quick'), parse(sys.argv[2], 'thorough')
print('| Check | quick: states / implementation calls, engine wall | thorough: states / calls, engine wall |')
print('|---|---|---|')
for c in sorted(q):
    a = q[c]; b = t.get(c)
    print('| %s | %s / %s, %.1f s | %s |' % (c, h(a[0]), h(a[1]), a[2], ('%s / %s, %.0f s' % (h(b[0]), h(b[1]), b[2])) if b else 'n/a'))
