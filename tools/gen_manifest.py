#!/usr/bin/env python3
"""Regenerates /verif/MANIFEST.json. Properties listed in BUILT get a check entry;
the others are listed under not_applicable with the reason 'check not built yet'
(kept current while the framework is being built)."""
import json, os
root = os.path.dirname(os.path.dirname(os.path.abspath(__file__)))

BUILT = [l.strip() for l in open(os.path.join(root, 'tools', 'built.txt')) if l.strip() and not l.startswith('#')]

TB = "Trusted base: rustc/cargo, the harness's own oracles (exact BigRational arithmetic; libm erfc/lgamma based normal and Student-t CDFs self-tested on every run against committed mpmath tables), and the stated bounds; values outside the enumerated alphabets/grids are not covered."

P = {
 "C01": ("bounded-exhaustive input enumeration of the real mean-CI code vs exact-rational + independent t/normal CDF oracle",
         "Every sample sequence over stated float alphabets (also scaled by powers of two from 2^-300 to 2^300) up to a length bound x all confidences x f32/f64 x all call styles, streaming states queried at every n across the t->z switch, and all one-shot entry points on vectors up to 2.5e5 values, are executed on the real code and judged against exact rational statistics and an independent Student-t/normal CDF. Exhaustive within the bound; tests pin ~10 data sets.", "4/C01"),
 "C02": ("exhaustive (n,k) triangle x confidence grid x all proportion front-ends vs score-equation oracle",
         "All (n,k) with k<=n+1 up to a bound, all confidences, every front-end (counts, ratio, booleans, predicate, running Stats, Wald) run on the real code; bounds checked against the Wilson roots and the exact score-equation residual; admissibility decided on integers; plus every (population, successes) pair of a small box, incl. successes > population, restored by a deserializer and asked through Stats::ci (checks/c02.sh).", "4/C02"),
 "C03": ("exhaustive (n,q,confidence) rank enumeration + all permutations of small samples vs independent Wilson-rank oracle",
         "Every n up to a bound x dense q grid (incl. half-integer q*n) x all confidences through the index, sorted, unsorted, fixed-capacity and Stats entry points; all n! input orders for n<=7..8 with ties over several element types.", "4/C03"),
 "C04": ("bounded-exhaustive enumeration of sample pairs and feeding histories, differential vs the real arithmetic path and exact Welch oracle",
         "All equal/unequal-length pairs over stated alphabets x feeding styles x confidences x f32/f64; paired results must be bit-identical to the mean CI of the differences; unpaired centre/width judged against exact rational statistics and t CDF at the documented real-valued dof; swap symmetry bit-exact.", "4/C04"),
 "C05": ("bounded-exhaustive enumeration + explicit-state search (BFS over real Geometric/Harmonic registers with fault actions)",
         "All positive samples over a 9-value alphabet up to length 4-5 x confidences: geometric/harmonic intervals compared with the back-transformed real arithmetic interval; BFS over append/extend actions including every non-positive value at every position checks rejection payload and that the state is unchanged.", "4/C05"),
 "C06": ("exhaustive dof sweep (every integer dof 1..~101000, real-valued Welch dofs) x level grid vs independent t/normal CDF oracle",
         "The critical value implied by the real intervals is pushed through an independent CDF at every integer dof from 1 to beyond the t->z switch and at ~900 real-valued dofs, for all confidences incl. levels below 1/2, plus a dense sweep of every dof x up to 999 one-sided levels (the upstream quantile routine fails at isolated points that only a sweep meets).", "4/C06"),
 "C07": ("exhaustive enumeration over an order-complete chain (small-scope complete by parametricity) vs bit-set denotations",
         "All intervals of the 3 kinds over a chain realising every order type of <=4 bounds + probe, all ordered pairs and probes, 7 element types: decides the property for every totally ordered element type.", "4/C07, 5"),
 "C08": ("bounded-exhaustive enumeration of sequences x all merge trees, whole-type windows (bf16/f16) and long run-length patterns vs exact rational sums",
         "Every short sequence over a cancellation-forcing alphabet in f64/f32/f16/bf16 through every binary merge tree; all value pairs/triples of tiny float types in an exponent window; run-length patterns up to 1e7 terms and merge chains up to 1e6 registers; error judged against (8u+8nu^2)*sum|x| from exact sums.", "4/C08"),
 "C09": ("explicit-state BFS over real accumulator registers (operation histories), cross-checked state for state against stateright on the same model + loom exploration of all schedules of a 3-thread reduce",
         "BFS over all histories of new/append/extend/from_iter/clone/+/+=/query on pools of real registers for all 8 state types, invariant on every state against the model multiset and the real batch computation; long histories (up to 2e5 observations as left/right folds and balanced reductions) and every bulk size around powers of two; loom explores every interleaving of a caller-side parallel reduce and all merge orders.", "4/C09"),
 "C10": ("bounded-exhaustive enumeration of producers x inputs x all ordered level pairs x kinds; relational oracle on returned bounds",
         "For every producer and every enumerated input (incl. streaming states beyond the t->normal switch), all pairs of levels on the grid and all three kinds: one-sided(L) vs two-sided(2L-1) coincidence, nesting in the level, containment of the point estimate, kind/shape of the result; plus call-order independence (forward/reverse/stride orders and a fresh thread must agree bit for bit).", "4/C10"),
 "C11": ("fault enumeration: every fault value at every position (1 and 2 faults) x every public entry point under catch_unwind with overflow checks on",
         "Systematic enumeration of invalid/degenerate inputs over the whole public surface; oracle: no undocumented panic, no Ok with NaN or inverted bounds, documented error variant per input class.", "4/C11"),
 "C12": ("exact binomial coverage summed over all outcomes k on (n, p|q, level, kind) grids vs method slack fixed from the oracle's own Wilson formula",
         "Coverage is computed exactly (sum over all outcomes through the real interval code), not sampled, for n up to several thousand on fine p/q grids.", "4/C12"),
 "C13": ("closure search (BFS to depth 2-3) over interval arithmetic on integer/dyadic boxes; soundness/tightness/well-formedness on every transition",
         "All seed intervals in a box x all scalars x all compatible interval pairs, results re-entered as states; every member image checked for membership, every bound for attainment, unbounded sides against the true image.", "4/C13"),
 "C14": ("exhaustive enumeration of bound pairs x constructors/conversions x accessors over order-complete chains",
         "All ordered/equal/inverted bound pairs through every constructor and conversion, every accessor and round trip, for integer/unsigned/float/non-numeric types.", "4/C14"),
 "C15": ("exhaustive enumeration of all ordered interval triples over an order-complete chain vs bit-set denotations",
         "All 42^3 triples (7-chain realises every order type of 6 bounds) for three element types: Equal iff ==, a<b iff all members ordered, antisymmetry, transitivity, incomparability.", "4/C15"),
 "C16": ("bounded-exhaustive metamorphic enumeration (power-of-two scaling, negation, shift, all permutations) on real runs",
         "Relations between two real runs for every base sample, exponent, shift and permutation within the bounds; bit-exact where IEEE guarantees it.", "4/C16"),
 "C17": ("exhaustive (n,k) triangle x confidences x multipliers; relational oracle between real runs",
         "Monotonicity in k, mirror symmetry, shrinking with n, widening with level, [0,1] and midpoint clauses over every admissible (n,k) up to a bound.", "4/C17"),
 "C18": ("exhaustive enumeration of boundary doubles and (thorough) all 2^32 f32 bit patterns; all pairs/triples for the order laws",
         "Constructors/try_from over boundary values and a whole float type; accessor consistency, flipped involution, partial order exactly within kinds.", "4/C18"),
 "C19": ("exhaustive enumeration of float interval pairs x tolerances generated around the actual bound differences",
         "All ordered pairs of 65 float intervals x tolerance grids derived from the pair, for abs/relative/ulps equality; Display byte-for-byte.", "4/C19"),
 "C20": ("configuration enumeration (5 feature sets built) + explicit-state BFS with a RoundTrip action in every reachable state",
         "Every advertised feature set is built from the working tree; with serde on, BFS over accumulation histories where every state is round-tripped through CBOR/JSON/TOML and a positional (bincode-style, non-self-describing) format and must be the same search state (equal, same Debug, same statistics, same continuations).", "4/C20"),
}

checks = []
na = []
for pid in sorted(P):
    tech, text, ref = P[pid]
    if pid in BUILT:
        checks.append({
            "property_id": pid,
            "quick_cmd": f"./run.sh {pid} quick",
            "thorough_cmd": f"./run.sh {pid} thorough",
            "evidence_file": f"/verif/evidence/{pid}.json",
            "replay_cmd_template": "./run.sh replay {path}",
            "engine": "mc-explorer",
            "level_claimed": {"category": "model_checking", "text": text, "design_ref": f"DESIGN.md section {ref}"},
            "level_note": TB,
            "technique": tech,
        })
    else:
        na.append({"property_id": pid, "reason": "check not built yet (framework under construction; see DESIGN.md section 4/" + pid + " for the plan) - not a statement that model checking cannot apply"})

m = {
    "version": 1,
    "setup_cmd": "./run.sh setup",
    "hooks": {
        "guard": "stats_ci_verif",
        "enable": "none needed: no hooks are compiled into /repo; every observation uses the public API plus Debug (guard name reserved, unused)",
        "baseline_off_cmd": "cd /repo && cargo test --workspace --no-fail-fast --offline",
        "source_commits": [],
        "add_only": True,
    },
    "engines": [
        {"name": "mc-explorer", "path": "/verif/harness", "serves_properties": sorted(BUILT),
         "kind_free_text": "hand-rolled bounded-exhaustive enumerators and explicit-state BFS over the real stats-ci API (Rust, rayon), exact-rational and independent distribution oracles self-tested against committed mpmath tables"},
        {"name": "loom", "path": "/verif/harness/vloom", "serves_properties": ["C09"],
         "kind_free_text": "loom 0.7.2 controlled scheduler: all interleavings (no preemption bound) of a 3-thread caller-side parallel reduce, two harness shapes x three state types"},
        {"name": "stateright", "path": "/verif/harness/vsr", "serves_properties": ["C09"],
         "kind_free_text": "stateright 0.31.0 breadth-first checker over the same pool model of real accumulator registers (8 state types): invariant on every reached state (a discovery is a violation); its unique-state counts are recorded next to those of the hand-rolled explorer for the same bound (equal on the current tree for all 8 types)"},
    ],
    "checks": checks,
    "not_applicable": na,
    "notes": "All checks rebuild stats-ci from /repo's working tree (path dependency). Exit 0 held / 1 VIOLATION / 2-3 machinery error. Known findings: /verif/known_findings.json.",
}
json.dump(m, open(os.path.join(root, 'MANIFEST.json'), 'w'), indent=1)
print("claimed:", [c["property_id"] for c in checks])
