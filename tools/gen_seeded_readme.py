#!/usr/bin/env python3
"""Regenerate seeded/README.md from seeded/*/meta.json."""
import json, glob, os
root = os.path.dirname(os.path.dirname(os.path.abspath(__file__)))
rows = []
for f in sorted(glob.glob(os.path.join(root, 'seeded', '*', 'meta.json'))):
    m = json.load(open(f))
    rows.append(m)
out = ["# Seeded property-breaking changes", "",
       "Each directory holds `patch.diff` (against the /repo HEAD named in meta.json), the demonstration `seeded_demo.rs`",
       "(fails with the change, passes without it), the author's notes `SEEDED.md` and `meta.json`.",
       "All changes compile and pass the pinned 55 tests and the 84 doc tests. None is ever committed to /repo.",
       "To re-run one: `tools/try_seed.sh <id> seeded/<id>` (scratch worktree under /tmp, removed afterwards).", "",
       "| id | breaks | what it needs to manifest | caught by (quick tier) | first signature |", "|---|---|---|---|---|"]
for m in rows:
    out.append(f"| {m['id']} | {m['property']} | {m['needs']} | {', '.join(m['caught_by']) or '**none**'} | `{m.get('first_signature','')}` |")
out.append("")
open(os.path.join(root, 'seeded', 'README.md'), 'w').write("\n".join(out))
print(len(rows), "seeded changes")
