#!/usr/bin/env python3
"""tools/mkmeta.py <log> : write seeded/<id>/meta.json from a tools/try_seed.sh log."""
import json, re, sys, os, subprocess
root = os.path.dirname(os.path.dirname(os.path.abspath(__file__)))
DESCR = json.load(open(os.path.join(root, 'seeded', 'descriptions.json')))
log = open(sys.argv[1]).read()
head = subprocess.check_output(['git', '-C', '/repo', 'rev-parse', '--short', 'HEAD']).decode().strip()
for block in re.split(r'^######## ', log, flags=re.M)[1:]:
    sid = block.split('\n', 1)[0].strip()
    d = DESCR.get(sid)
    if not d:
        print('no description for', sid); continue
    results = re.findall(r'^test result: (\w+)\. (\d+) passed; (\d+) failed', block, flags=re.M)
    summary = re.search(r'Summary.*?(\d+) tests run: (\d+) passed', block)
    caught = re.search(r'^CAUGHT-BY:(.*)$', block, flags=re.M)
    sigs = re.findall(r'^   (C\d\d): VIOLATION x(\d+) \(rc=1\):\s+signature: (.*)$', block, flags=re.M)
    applies = 'PATCH-DOES-NOT-APPLY' not in block
    mpath = os.path.join(root, 'seeded', sid, 'meta.json')
    if not results and os.path.exists(mpath):
        # a --checks-only run: keep the confirmation record, refresh the detection record
        meta = json.load(open(mpath))
        meta["caught_by"] = caught.group(1).split() if caught else []
        meta["signatures"] = {c: s for c, n, s in sigs}
        own = [s for c, n, s in sigs if c == meta["property"]]
        meta["first_signature"] = own[0] if own else (sigs[0][2] if sigs else "")
        meta["checks_run_against_repo_head"] = head
        json.dump(meta, open(mpath, 'w'), indent=1)
        print(sid, 'updated', meta["caught_by"])
        continue
    meta = {
        "id": sid,
        "property": d["property"],
        "what": d["what"],
        "needs": d["needs"],
        "origin": "sub-agent given only the property text and a private scratch worktree of /repo (nothing from /verif)",
        "repo_head_when_confirmed": head,
        "confirmed": {
            "patch_applies": applies,
            "demo_on_unchanged_tree": (results[0][0] if results else None),
            "pinned_suite_with_change": (f"{summary.group(2)}/{summary.group(1)} passed" if summary else None),
            "doc_tests_with_change": (results[1][0] if len(results) > 1 else None),
            "demo_with_change": (results[2][0] if len(results) > 2 else None),
        },
        "ran": ["tools/try_seed.sh %s seeded/%s  (scratch worktree /tmp/wt/verify: demo without the change; git apply patch.diff; cargo nextest run --workspace --no-fail-fast --offline -E 'not binary(seeded_demo)'; cargo test --doc --offline; demo with the change; then git -C /repo apply; ./run.sh Cnn quick for all 20; git -C /repo checkout -- .)" % (sid, sid)],
        "caught_by": caught.group(1).split() if caught else [],
        "signatures": {c: s for c, n, s in sigs},
        "first_signature": (sigs[0][2] if sigs else ""),
    }
    os.makedirs(os.path.join(root, 'seeded', sid), exist_ok=True)
    json.dump(meta, open(os.path.join(root, 'seeded', sid, 'meta.json'), 'w'), indent=1)
    print(sid, meta["confirmed"], meta["caught_by"])
