#!/bin/bash
# tools/mkwt.sh <name>: scratch worktree of /repo HEAD under /tmp/wt/<name> with lock file and a warm target dir
set -e
n="$1"
git -C /repo worktree add --detach /tmp/wt/$n HEAD >/dev/null 2>&1
cp /repo/Cargo.lock /tmp/wt/$n/Cargo.lock
cp -r /repo/target /tmp/wt/$n/target
echo /tmp/wt/$n
