#!/bin/bash
# tools/try_refactor.sh <id>: apply a behaviour-preserving refactoring (refactors/<id>/patch.diff)
# to /repo, run the pinned suite and all 20 quick checks (all must stay silent), undo it.
set -u
id="$1"; shift
checks="${*:-C01 C02 C03 C04 C05 C06 C07 C08 C09 C10 C11 C12 C13 C14 C15 C16 C17 C18 C19 C20}"
git -C /repo apply /verif/refactors/$id/patch.diff || { echo "PATCH-DOES-NOT-APPLY"; exit 3; }
/verif/tools/baseline.sh | head -1
alarms=""
for c in $checks; do
  out="$(RUST_BACKTRACE=0 /verif/run.sh $c quick 2>&1)"; rc=$?
  if [ $rc -ne 0 ]; then alarms="$alarms $c"; echo "   $c rc=$rc: $(echo "$out" | grep -E -m3 'signature:|detail:|MACHINERY' | cut -c1-260 | tr '\n' ' ')"; fi
done
git -C /repo checkout -- . ; git -C /repo status --short | head -3
echo "ALARMS:$alarms"
