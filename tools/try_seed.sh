#!/bin/bash
# tools/try_seed.sh <id> <dir-with-patch.diff-and-seeded_demo.rs> [checks...]
# 1. confirms the seeded change in a scratch worktree of /repo HEAD: demo passes without it,
#    pinned suite + doc tests pass with it, demo fails with it;
# 2. applies it to /repo, runs the given checks (default: all 20 quick), records which
#    raise VIOLATION, and undoes it (git -C /repo checkout -- .).
set -u
if [ "${1:-}" = "--cleanup" ]; then git -C /repo worktree remove --force /tmp/wt/verify; rm -f /tmp/wt/verify-*.patch; exit 0; fi
ONLY=0; if [ "${1:-}" = "--checks-only" ]; then ONLY=1; shift; fi
id="$1"; src="$(cd "$2" && pwd)"; shift 2
checks="${*:-C01 C02 C03 C04 C05 C06 C07 C08 C09 C10 C11 C12 C13 C14 C15 C16 C17 C18 C19 C20}"
if [ $ONLY -eq 1 ]; then cp "$src/patch.diff" /tmp/wt/verify-$id.patch; else
W=/tmp/wt/verify
# one persistent scratch worktree (removed by `tools/try_seed.sh --cleanup`)
if [ ! -d $W ]; then /verif/tools/mkwt.sh verify >/dev/null || exit 2; fi
git -C $W checkout -q --detach $(git -C /repo rev-parse HEAD) 2>/dev/null; git -C $W checkout -q -- . ; rm -f $W/tests/seeded_demo.rs
cp "$src/tests/seeded_demo.rs" $W/tests/seeded_demo.rs 2>/dev/null || cp "$src/seeded_demo.rs" $W/tests/seeded_demo.rs
cd $W
FEAT=""; grep -q 'feature = "serde"' tests/seeded_demo.rs && FEAT="--features serde"
echo "== [1] demo on the unchanged tree"
cargo test --offline $FEAT --test seeded_demo 2>&1 | grep -E "^test result|error" | head -3
d0=${PIPESTATUS[0]}
echo "== [2] apply patch"
git apply "$src/patch.diff" 2>/dev/null || git apply --3way "$src/patch.diff" || { echo "PATCH-DOES-NOT-APPLY"; cd /; git -C /repo worktree remove --force $W; exit 3; }
git diff --stat -- src | tail -1
echo "== [3] pinned suite + doc tests with the change"
cargo nextest run --workspace --no-fail-fast --offline -E 'not binary(seeded_demo)' 2>&1 | grep -E "Summary|FAIL" | head -5
cargo test --doc --offline 2>&1 | grep -E "^test result" | head -2
echo "== [4] demo with the change (must fail)"
cargo test --offline $FEAT --test seeded_demo 2>&1 | grep -E "^test result|error\[" | head -3
git diff -- src > /tmp/wt/verify-$id.patch
git checkout -q -- . ; rm -f tests/seeded_demo.rs
cd /
fi
echo "== [5] checks against the change applied to /repo"
git -C /repo apply /tmp/wt/verify-$id.patch || { echo "cannot apply to /repo"; exit 3; }
caught=""
for c in $checks; do
  out="$(RUST_BACKTRACE=0 /verif/run.sh $c quick 2>&1)"; rc=$?
  nv=$(echo "$out" | grep -c '^VIOLATION')
  if [ $nv -gt 0 ]; then caught="$caught $c"; echo "   $c: VIOLATION x$nv (rc=$rc): $(echo "$out" | grep -m1 'signature:' | cut -c1-160)"; 
  elif [ $rc -ne 0 ]; then echo "   $c: rc=$rc $(echo "$out" | grep -m1 MACHINERY | cut -c1-200)"; fi
done
git -C /repo checkout -- . ; git -C /repo status --short | head -3
echo "CAUGHT-BY:$caught"
