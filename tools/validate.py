#!/usr/bin/env python3-vt
"""Validate MANIFEST.json and evidence/*.json against the given schemas."""
import json, sys, glob, os
import jsonschema
root = os.path.dirname(os.path.dirname(os.path.abspath(__file__)))
ms = json.load(open('/root/.vp/MANIFEST.schema.json'))
es = json.load(open('/root/.vp/EVIDENCE.schema.json'))
m = json.load(open(os.path.join(root, 'MANIFEST.json')))
jsonschema.validate(m, ms)
props = [json.loads(l)['id'] for l in open(os.path.join(root, 'properties.jsonl'))]
claimed = [c['property_id'] for c in m['checks']]
na = [c['property_id'] for c in m.get('not_applicable', [])]
assert sorted(claimed + na) == sorted(props), (sorted(claimed + na), props)
print('MANIFEST ok: claimed', len(claimed), 'not_applicable', len(na))
bad = 0
for c in m['checks']:
    f = os.path.join(root, c['evidence_file'].replace('/verif/', ''))
    if not os.path.exists(f):
        print('  missing evidence', f); bad += 1; continue
    try:
        e = json.load(open(f)); jsonschema.validate(e, es)
        assert e['property_id'] == c['property_id']
        assert e['level'] == c['level_claimed']['category'], (e['level'], c['level_claimed']['category'])
        print('  evidence ok', c['property_id'], e['tier'], 'states', e['coverage'].get('states'), 'viol', e.get('violations'))
    except Exception as ex:
        print('  INVALID', f, str(ex)[:300]); bad += 1
sys.exit(1 if bad else 0)
